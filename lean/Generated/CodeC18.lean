/-
  Generated/CodeC18.lean — REGENERATED on every run by harness/py2lean.py from the current source of
  /repo (symbolic execution of small control-flow functions; see Model/PyCore.lean).  Do not edit.
-/
import Model.PyCore

set_option linter.unusedVariables false

namespace DI.Gen

open DI.Py

/-- dataiter/geojson.py: GeoJSON.read (sha256 of the function source: e4adb648647d0e52) -/
def GeoJSON_read (truth : Term → Bool) : Out :=
  let eff0 : Term := (Term.app "with" [(Term.app "util.xopen" [(Term.sym "path"), (Term.sym "'rt'"), (Term.app "=encoding" [(Term.sym "encoding")])])]);
  let raw' : Term := (Term.app "AttributeDict" [(Term.app "json.load" [eff0, (Term.app "=**" [(Term.sym "kwargs")])])]);
  let eff1 : Term := (Term.app "._check_raw_data" [(Term.sym "cls"), raw']);
  let data' : Term := (Term.sym "{}");
  let eff2 : Term := (Term.app "for" [(Term.sym "feature"), (Term.app ".features" [raw']), (Term.app "block" [(Term.app "for" [(Term.sym "key"), (Term.app ".properties" [(Term.sym "feature")]), (Term.app "block" [(Term.app ".setdefault" [data', (Term.sym "key"), (Term.app "list" [])])])])])]);
  if truth (Term.sym "columns") then
    let data' : Term := (Term.app "DictComp" [(Term.app "pair" [(Term.sym "k"), (Term.sym "v")]), (Term.app "in" [(Term.app "tuple" [(Term.sym "k"), (Term.sym "v")]), (Term.app ".items" [data']), (Term.app "if" [(Term.app "In" [(Term.sym "k"), (Term.sym "columns")])])])]);
    let eff3 : Term := (Term.app "for" [(Term.sym "feature"), (Term.app ".features" [raw']), (Term.app "block" [(Term.app "for" [(Term.sym "key"), data', (Term.app "block" [(Term.app "assign" [(Term.sym "value"), (Term.app ".get" [(Term.app ".properties" [(Term.sym "feature")]), (Term.sym "key"), (Term.sym "None")])]), (Term.app ".append" [(Term.app "getitem" [data', (Term.sym "key")]), (Term.sym "value")])]), (Term.app "init" [(Term.sym "value"), (Term.sym "value")])])])]);
    let value' : Term := (Term.app "value-after-loop" [(Term.sym "value"), eff3]);
    let eff4 : Term := (Term.app "store" [(Term.app "getitem" [data', (Term.sym "'geometry'")]), (Term.app "ListComp" [(Term.app ".geometry" [(Term.sym "x")]), (Term.app "in" [(Term.sym "x"), (Term.app ".features" [raw']), (Term.app "if" [])])])]);
    let eff5 : Term := (Term.app "for" [(Term.app "tuple" [(Term.sym "name"), (Term.sym "dtype")]), (Term.app ".items" [(Term.sym "dtypes")]), (Term.app "block" [(Term.app "store" [(Term.app "getitem" [data', (Term.sym "name")]), (Term.app "DataFrameColumn" [(Term.app "getitem" [data', (Term.sym "name")]), (Term.sym "dtype")])])])]);
    let data' : Term := (Term.app "cls" [(Term.app "=**" [data'])]);
    let eff6 : Term := (Term.app "del" [(Term.app ".features" [raw'])]);
    let attr7_2' : Term := raw';
    let eff7 : Term := (Term.app "setattr" [data', (Term.sym "metadata"), attr7_2']);
    Out.ret [eff0, eff1, eff2, eff3, eff4, eff5, eff6, eff7] data'
  else
    let eff3 : Term := (Term.app "for" [(Term.sym "feature"), (Term.app ".features" [raw']), (Term.app "block" [(Term.app "for" [(Term.sym "key"), data', (Term.app "block" [(Term.app "assign" [(Term.sym "value"), (Term.app ".get" [(Term.app ".properties" [(Term.sym "feature")]), (Term.sym "key"), (Term.sym "None")])]), (Term.app ".append" [(Term.app "getitem" [data', (Term.sym "key")]), (Term.sym "value")])]), (Term.app "init" [(Term.sym "value"), (Term.sym "value")])])])]);
    let value' : Term := (Term.app "value-after-loop" [(Term.sym "value"), eff3]);
    let eff4 : Term := (Term.app "store" [(Term.app "getitem" [data', (Term.sym "'geometry'")]), (Term.app "ListComp" [(Term.app ".geometry" [(Term.sym "x")]), (Term.app "in" [(Term.sym "x"), (Term.app ".features" [raw']), (Term.app "if" [])])])]);
    let eff5 : Term := (Term.app "for" [(Term.app "tuple" [(Term.sym "name"), (Term.sym "dtype")]), (Term.app ".items" [(Term.sym "dtypes")]), (Term.app "block" [(Term.app "store" [(Term.app "getitem" [data', (Term.sym "name")]), (Term.app "DataFrameColumn" [(Term.app "getitem" [data', (Term.sym "name")]), (Term.sym "dtype")])])])]);
    let data' : Term := (Term.app "cls" [(Term.app "=**" [data'])]);
    let eff6 : Term := (Term.app "del" [(Term.app ".features" [raw'])]);
    let attr7_2' : Term := raw';
    let eff7 : Term := (Term.app "setattr" [data', (Term.sym "metadata"), attr7_2']);
    Out.ret [eff0, eff1, eff2, eff3, eff4, eff5, eff6, eff7] data'

/-- the decorators of dataiter/geojson.py: GeoJSON.read, outermost first -/
def GeoJSON_read_decorators : List String := ["classmethod"]

/-- the signature of dataiter/geojson.py: GeoJSON.read: parameters in order, with the source text of their defaults -/
def GeoJSON_read_signature : List String := ["cls", "path", "*", "encoding='utf-8'", "columns=[]", "dtypes={}", "**kwargs"]

/-- the calls of dataiter/geojson.py: GeoJSON.read in the order Python makes them along the source text -/
def GeoJSON_read_call_order : List String := ["util.xopen", "json.load", "AttributeDict", "cls._check_raw_data", "data.setdefault", "data.items", "feature.properties.get", "data[key].append", "dtypes.items", "DataFrameColumn", "cls"]

/-- dataiter/geojson.py: GeoJSON.write (sha256 of the function source: fc3f70aef193d971) -/
def GeoJSON_write (truth : Term → Bool) : Out :=
  let eff0 : Term := (Term.app ".setdefault" [(Term.sym "kwargs"), (Term.sym "'default'"), (Term.sym "str")]);
  let eff1 : Term := (Term.app ".setdefault" [(Term.sym "kwargs"), (Term.sym "'ensure_ascii'"), (Term.sym "False")]);
  let indent_width' : Term := (Term.app "Or" [(Term.app ".pop" [(Term.sym "kwargs"), (Term.sym "'indent'"), (Term.int (2 : Int))]), (Term.int (0 : Int))]);
  let indent1' : Term := (Term.app "Mult" [(Term.app "Mult" [(Term.sym "' '"), indent_width']), (Term.int (1 : Int))]);
  let indent2' : Term := (Term.app "Mult" [(Term.app "Mult" [(Term.sym "' '"), indent_width']), (Term.int (2 : Int))]);
  if truth (Term.app "NotIn" [(Term.sym "'geometry'"), (Term.sym "self")]) then
    Out.raise [eff0, eff1] "ValueError"
  else
    let data' : Term := (Term.app ".to_list_of_dicts" [(Term.sym "self")]);
    let eff2 : Term := (Term.app "util.makedirs_for_file" [(Term.sym "path")]);
    let eff3 : Term := (Term.app "with" [(Term.app "util.xopen" [(Term.sym "path"), (Term.sym "'wt'"), (Term.app "=encoding" [(Term.sym "encoding")])])]);
    let eff4 : Term := (Term.app ".write" [eff3, (Term.sym "'{\\n'")]);
    let eff5 : Term := (Term.app "for" [(Term.app "tuple" [(Term.sym "key"), (Term.sym "value")]), (Term.app ".items" [(Term.app ".metadata" [(Term.sym "self")])]), (Term.app "block" [(Term.app "assign" [(Term.sym "blob"), (Term.app "json.dumps" [(Term.sym "value"), (Term.app "=**" [(Term.sym "kwargs")])])]), (Term.app "assign" [(Term.sym "key"), (Term.app "json.dumps" [(Term.sym "key"), (Term.app "=ensure_ascii" [(Term.app "getitem" [(Term.sym "kwargs"), (Term.sym "'ensure_ascii'")])])])]), (Term.app ".write" [eff3, (Term.app "fstring" [(Term.app "format" [indent1', (Term.sym ""), (Term.int (-1 : Int))]), (Term.app "format" [(Term.sym "key"), (Term.sym ""), (Term.int (-1 : Int))]), (Term.sym "': '"), (Term.app "format" [(Term.sym "blob"), (Term.sym ""), (Term.int (-1 : Int))]), (Term.sym "',\\n'")])])])]);
    let blob' : Term := (Term.app "value-after-loop" [(Term.sym "blob"), eff5]);
    let key' : Term := (Term.app "value-after-loop" [(Term.sym "key"), eff5]);
    let eff6 : Term := (Term.app ".write" [eff3, (Term.app "fstring" [(Term.app "format" [indent1', (Term.sym ""), (Term.int (-1 : Int))]), (Term.sym "'\"features\": [\\n'")])]);
    let eff7 : Term := (Term.app "for" [(Term.app "tuple" [(Term.sym "i"), (Term.sym "item")]), (Term.app "enumerate" [data']), (Term.app "block" [(Term.app "assign" [(Term.sym "geometry"), (Term.app ".pop" [(Term.sym "item"), (Term.sym "'geometry'")])]), (Term.app "assign" [(Term.sym "blob"), (Term.app "dict" [(Term.app "pair" [(Term.sym "'type'"), (Term.sym "'Feature'")]), (Term.app "pair" [(Term.sym "'properties'"), (Term.sym "item")]), (Term.app "pair" [(Term.sym "'geometry'"), (Term.sym "geometry")])])]), (Term.app "assign" [(Term.sym "blob"), (Term.app "json.dumps" [(Term.sym "blob"), (Term.app "=**" [(Term.sym "kwargs")])])]), (Term.app "assign" [(Term.sym "comma"), (Term.app "ifexp" [(Term.app "Lt" [(Term.sym "i"), (Term.app "Sub" [(Term.app "len" [data']), (Term.int (1 : Int))])]), (Term.sym "','"), (Term.sym "''")])]), (Term.app ".write" [eff3, (Term.app "fstring" [(Term.app "format" [indent2', (Term.sym ""), (Term.int (-1 : Int))]), (Term.app "format" [(Term.sym "blob"), (Term.sym ""), (Term.int (-1 : Int))]), (Term.app "format" [(Term.sym "comma"), (Term.sym ""), (Term.int (-1 : Int))]), (Term.sym "'\\n'")])])]), (Term.app "init" [(Term.sym "blob"), blob'])]);
    let geometry' : Term := (Term.app "value-after-loop" [(Term.sym "geometry"), eff7]);
    let blob' : Term := (Term.app "value-after-loop" [(Term.sym "blob"), eff7]);
    let comma' : Term := (Term.app "value-after-loop" [(Term.sym "comma"), eff7]);
    let eff8 : Term := (Term.app ".write" [eff3, (Term.app "fstring" [(Term.app "format" [indent1', (Term.sym ""), (Term.int (-1 : Int))]), (Term.sym "']\\n'")])]);
    let eff9 : Term := (Term.app ".write" [eff3, (Term.sym "'}\\n'")]);
    Out.fall [eff0, eff1, eff2, eff3, eff4, eff5, eff6, eff7, eff8, eff9]

/-- the decorators of dataiter/geojson.py: GeoJSON.write, outermost first -/
def GeoJSON_write_decorators : List String := []

/-- the signature of dataiter/geojson.py: GeoJSON.write: parameters in order, with the source text of their defaults -/
def GeoJSON_write_signature : List String := ["self", "path", "*", "encoding='utf-8'", "**kwargs"]

/-- the calls of dataiter/geojson.py: GeoJSON.write in the order Python makes them along the source text -/
def GeoJSON_write_call_order : List String := ["kwargs.setdefault", "kwargs.setdefault", "kwargs.pop", "ValueError", "self.to_list_of_dicts", "util.makedirs_for_file", "util.xopen", "f.write", "self.metadata.items", "json.dumps", "json.dumps", "f.write", "f.write", "enumerate", "item.pop", "json.dumps", "len", "f.write", "f.write", "f.write"]

/-- dataiter/geojson.py: GeoJSON._check_raw_data (sha256 of the function source: 9c9a717d6abbcddd) -/
def GeoJSON_check_raw_data (truth : Term → Bool) : Out :=
  if truth (Term.app "NotIn" [(Term.app ".type" [(Term.sym "data")]), (Term.app ".TOP_LEVEL_TYPES" [(Term.sym "cls")])]) then
    Out.raise [] "TypeError"
  else
    let warned_feature_keys' : Term := (Term.app "list" []);
    let eff0 : Term := (Term.app "for" [(Term.sym "feature"), (Term.app ".features" [(Term.sym "data")]), (Term.app "block" [(Term.app "._check_raw_feature" [(Term.sym "cls"), (Term.sym "feature"), warned_feature_keys'])])]);
    Out.fall [eff0]

/-- the decorators of dataiter/geojson.py: GeoJSON._check_raw_data, outermost first -/
def GeoJSON_check_raw_data_decorators : List String := ["classmethod"]

/-- the signature of dataiter/geojson.py: GeoJSON._check_raw_data: parameters in order, with the source text of their defaults -/
def GeoJSON_check_raw_data_signature : List String := ["cls", "data"]

/-- the calls of dataiter/geojson.py: GeoJSON._check_raw_data in the order Python makes them along the source text -/
def GeoJSON_check_raw_data_call_order : List String := ["TypeError", "cls._check_raw_feature"]

/-- dataiter/geojson.py: GeoJSON._check_raw_feature (sha256 of the function source: 743845867d32ad33) -/
def GeoJSON_check_raw_feature (truth : Term → Bool) : Out :=
  if truth (Term.app "NotIn" [(Term.app ".type" [(Term.sym "feature")]), (Term.app ".FEATURE_TYPES" [(Term.sym "cls")])]) then
    Out.raise [] "TypeError"
  else
    let eff0 : Term := (Term.app "for" [(Term.sym "key"), (Term.app "Sub" [(Term.app "set()" [(Term.sym "feature")]), (Term.app "set()" [(Term.app ".FEATURE_KEYS" [(Term.sym "cls")])])]), (Term.app "block" [(Term.app "if" [(Term.app "In" [(Term.sym "key"), (Term.sym "warned_feature_keys")]), (Term.app "block" [(Term.sym "continue")]), (Term.app "block" [])]), (Term.app "print" [(Term.app "fstring" [(Term.sym "'Warning: Ignoring feature key '"), (Term.app "format" [(Term.sym "key"), (Term.sym ""), (Term.int (114 : Int))])])]), (Term.app ".append" [(Term.sym "warned_feature_keys"), (Term.sym "key")])])]);
    let eff1 : Term := (Term.app "for" [(Term.app "tuple" [(Term.sym "key"), (Term.sym "value")]), (Term.app ".items" [(Term.app ".properties" [(Term.sym "feature")])]), (Term.app "block" [(Term.app "if" [(Term.app "isinstance" [(Term.sym "value"), (Term.app "tuple()" [(Term.app ".PROPERTY_TYPES" [(Term.sym "cls")])])]), (Term.app "block" [(Term.sym "continue")]), (Term.app "block" [])]), (Term.app "raise" [(Term.sym "TypeError")])])]);
    Out.fall [eff0, eff1]

/-- the decorators of dataiter/geojson.py: GeoJSON._check_raw_feature, outermost first -/
def GeoJSON_check_raw_feature_decorators : List String := ["classmethod"]

/-- the signature of dataiter/geojson.py: GeoJSON._check_raw_feature: parameters in order, with the source text of their defaults -/
def GeoJSON_check_raw_feature_signature : List String := ["cls", "feature", "warned_feature_keys"]

/-- the calls of dataiter/geojson.py: GeoJSON._check_raw_feature in the order Python makes them along the source text -/
def GeoJSON_check_raw_feature_call_order : List String := ["TypeError", "set", "set", "print", "warned_feature_keys.append", "feature.properties.items", "tuple", "isinstance", "type", "TypeError"]

/-- dataiter/geojson.py: GeoJSON.__init__ (sha256 of the function source: 03a6a986325a7a99) -/
def GeoJSON_init (truth : Term → Bool) : Out :=
  let eff0 : Term := (Term.app "super().__init__" [(Term.app "*" [(Term.sym "args")]), (Term.app "=**" [(Term.sym "kwargs")])]);
  let attr1_1' : Term := (Term.app "AttributeDict" [(Term.app "=type" [(Term.sym "'FeatureCollection'")])]);
  let eff1 : Term := (Term.app "setattr" [(Term.sym "self"), (Term.sym "metadata"), attr1_1']);
  Out.fall [eff0, eff1]

/-- the decorators of dataiter/geojson.py: GeoJSON.__init__, outermost first -/
def GeoJSON_init_decorators : List String := []

/-- the signature of dataiter/geojson.py: GeoJSON.__init__: parameters in order, with the source text of their defaults -/
def GeoJSON_init_signature : List String := ["self", "*args", "**kwargs"]

/-- the calls of dataiter/geojson.py: GeoJSON.__init__ in the order Python makes them along the source text -/
def GeoJSON_init_call_order : List String := ["super", "super().__init__", "AttributeDict"]

end DI.Gen

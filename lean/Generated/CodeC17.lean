/-
  Generated/CodeC17.lean — REGENERATED on every run by harness/py2lean.py from the current source of
  /repo (symbolic execution of small control-flow functions; see Model/PyCore.lean).  Do not edit.
-/
import Model.PyCore

set_option linter.unusedVariables false

namespace DI.Gen

open DI.Py

/-- dataiter/list_of_dicts.py: ListOfDicts.__init__ (sha256 of the function source: d429aaa4dc181dd1) -/
def ListOfDicts_init (truth : Term → Bool) : Out :=
  let eff0 : Term := (Term.app "super().__init__" [(if truth (Term.sym "as_is") then (Term.sym "dicts") else (Term.app "map" [(Term.sym "AttributeDict"), (Term.sym "dicts")]))]);
  let attr1_1' : Term := (Term.app "tuple" []);
  let eff1 : Term := (Term.app "setattr" [(Term.sym "self"), (Term.sym "_group_keys"), attr1_1']);
  let attr2_1' : Term := (Term.sym "False");
  let eff2 : Term := (Term.app "setattr" [(Term.sym "self"), (Term.sym "_obsolete"), attr2_1']);
  let attr3_1' : Term := (Term.sym "False");
  let eff3 : Term := (Term.app "setattr" [(Term.sym "self"), (Term.sym "_obsolete_warned"), attr3_1']);
  let attr4_1' : Term := (Term.sym "None");
  let eff4 : Term := (Term.app "setattr" [(Term.sym "self"), (Term.sym "_predecessor"), attr4_1']);
  Out.fall [eff0, eff1, eff2, eff3, eff4]

/-- the decorators of dataiter/list_of_dicts.py: ListOfDicts.__init__, outermost first -/
def ListOfDicts_init_decorators : List String := []

/-- the signature of dataiter/list_of_dicts.py: ListOfDicts.__init__: parameters in order, with the source text of their defaults -/
def ListOfDicts_init_signature : List String := ["self", "dicts=()", "*", "as_is=False"]

/-- the calls of dataiter/list_of_dicts.py: ListOfDicts.__init__ in the order Python makes them along the source text -/
def ListOfDicts_init_call_order : List String := ["super", "map", "super().__init__"]

/-- dataiter/list_of_dicts.py: ListOfDicts._new (sha256 of the function source: 896a760aaaf7e011) -/
def ListOfDicts_new (truth : Term → Bool) : Out :=
  let new' : Term := (Term.app ".__class__" [(Term.sym "self"), (Term.sym "dicts"), (Term.app "=as_is" [(Term.sym "True")])]);
  let attr0_1' : Term := (Term.app "._group_keys" [(Term.sym "self")]);
  let eff0 : Term := (Term.app "setattr" [new', (Term.sym "_group_keys"), attr0_1']);
  let attr1_1' : Term := (Term.sym "self");
  let eff1 : Term := (Term.app "setattr" [new', (Term.sym "_predecessor"), attr1_1']);
  Out.ret [eff0, eff1] new'

/-- the decorators of dataiter/list_of_dicts.py: ListOfDicts._new, outermost first -/
def ListOfDicts_new_decorators : List String := []

/-- the signature of dataiter/list_of_dicts.py: ListOfDicts._new: parameters in order, with the source text of their defaults -/
def ListOfDicts_new_signature : List String := ["self", "dicts"]

/-- the calls of dataiter/list_of_dicts.py: ListOfDicts._new in the order Python makes them along the source text -/
def ListOfDicts_new_call_order : List String := ["self.__class__"]

/-- dataiter/list_of_dicts.py: ListOfDicts.__deepcopy__ (sha256 of the function source: 2115d0b9f19d77b6) -/
def ListOfDicts_deepcopy (truth : Term → Bool) : Out :=
  let new' : Term := (Term.app ".__class__" [(Term.sym "self"), (Term.app "map" [(Term.sym "copy.deepcopy"), (Term.sym "self")]), (Term.app "=as_is" [(Term.sym "True")])]);
  let attr0_1' : Term := (Term.app "._group_keys" [(Term.sym "self")]);
  let eff0 : Term := (Term.app "setattr" [new', (Term.sym "_group_keys"), attr0_1']);
  Out.ret [eff0] new'

/-- the decorators of dataiter/list_of_dicts.py: ListOfDicts.__deepcopy__, outermost first -/
def ListOfDicts_deepcopy_decorators : List String := []

/-- the signature of dataiter/list_of_dicts.py: ListOfDicts.__deepcopy__: parameters in order, with the source text of their defaults -/
def ListOfDicts_deepcopy_signature : List String := ["self", "memo=None"]

/-- the calls of dataiter/list_of_dicts.py: ListOfDicts.__deepcopy__ in the order Python makes them along the source text -/
def ListOfDicts_deepcopy_call_order : List String := ["map", "self.__class__"]

/-- dataiter/list_of_dicts.py: ListOfDicts.__copy__ (sha256 of the function source: 4d81bfa2b7fe6e21) -/
def ListOfDicts_copy (truth : Term → Bool) : Out :=
  Out.ret [] (Term.app "._new" [(Term.sym "self"), (Term.sym "self")])

/-- the decorators of dataiter/list_of_dicts.py: ListOfDicts.__copy__, outermost first -/
def ListOfDicts_copy_decorators : List String := []

/-- the signature of dataiter/list_of_dicts.py: ListOfDicts.__copy__: parameters in order, with the source text of their defaults -/
def ListOfDicts_copy_signature : List String := ["self"]

/-- the calls of dataiter/list_of_dicts.py: ListOfDicts.__copy__ in the order Python makes them along the source text -/
def ListOfDicts_copy_call_order : List String := ["self._new"]

/-- dataiter/list_of_dicts.py: ListOfDicts._mark_obsolete (sha256 of the function source: f28eef876f7e4755) -/
def ListOfDicts_mark_obsolete (truth : Term → Bool) : Out :=
  if truth (Term.app "isinstance" [(Term.app "._predecessor" [(Term.sym "self")]), (Term.sym "ListOfDicts")]) then
    let eff0 : Term := (Term.app "._mark_obsolete" [(Term.app "._predecessor" [(Term.sym "self")])]);
    let attr1_2' : Term := (Term.sym "True");
    let eff1 : Term := (Term.app "setattr" [(Term.sym "self"), (Term.sym "_obsolete"), attr1_2']);
    Out.fall [eff0, eff1]
  else
    let attr0_2' : Term := (Term.sym "True");
    let eff0 : Term := (Term.app "setattr" [(Term.sym "self"), (Term.sym "_obsolete"), attr0_2']);
    Out.fall [eff0]

/-- the decorators of dataiter/list_of_dicts.py: ListOfDicts._mark_obsolete, outermost first -/
def ListOfDicts_mark_obsolete_decorators : List String := []

/-- the signature of dataiter/list_of_dicts.py: ListOfDicts._mark_obsolete: parameters in order, with the source text of their defaults -/
def ListOfDicts_mark_obsolete_signature : List String := ["self"]

/-- the calls of dataiter/list_of_dicts.py: ListOfDicts._mark_obsolete in the order Python makes them along the source text -/
def ListOfDicts_mark_obsolete_call_order : List String := ["isinstance", "self._predecessor._mark_obsolete"]

/-- dataiter/list_of_dicts.py: ListOfDicts.__getattribute__ (sha256 of the function source: a8de21611f165ea9) -/
def ListOfDicts_getattribute (truth : Term → Bool) : Out :=
  let value' : Term := (Term.app "super().__getattribute__" [(Term.sym "name")]);
  if (truth (Term.app "NotIn" [(Term.sym "'obsolete'"), (Term.sym "name")]) && truth (Term.app "callable" [value']) && truth (Term.app "._obsolete" [(Term.sym "self")]) && (!truth (Term.app "._obsolete_warned" [(Term.sym "self")]))) then
    let eff0 : Term := (Term.app "print" [(Term.sym "'Warning: A successor has modified the shared dicts'")]);
    let attr1_2' : Term := (Term.sym "True");
    let eff1 : Term := (Term.app "setattr" [(Term.sym "self"), (Term.sym "_obsolete_warned"), attr1_2']);
    Out.ret [eff0, eff1] value'
  else
    Out.ret [] value'

/-- the decorators of dataiter/list_of_dicts.py: ListOfDicts.__getattribute__, outermost first -/
def ListOfDicts_getattribute_decorators : List String := []

/-- the signature of dataiter/list_of_dicts.py: ListOfDicts.__getattribute__: parameters in order, with the source text of their defaults -/
def ListOfDicts_getattribute_signature : List String := ["self", "name"]

/-- the calls of dataiter/list_of_dicts.py: ListOfDicts.__getattribute__ in the order Python makes them along the source text -/
def ListOfDicts_getattribute_call_order : List String := ["super", "super().__getattribute__", "callable", "print"]

/-- dataiter/deco.py: obsoletes.wrapper (sha256 of the function source: 17886f707cd2e2ec) -/
def deco_obsoletes_wrapper (truth : Term → Bool) : Out :=
  let value' : Term := (Term.app "function" [(Term.sym "self"), (Term.app "*" [(Term.sym "args")]), (Term.app "=**" [(Term.sym "kwargs")])]);
  let eff0 : Term := (Term.app "._mark_obsolete" [(Term.sym "self")]);
  Out.ret [eff0] value'

/-- the decorators of dataiter/deco.py: obsoletes.wrapper, outermost first -/
def deco_obsoletes_wrapper_decorators : List String := ["functools.wraps(function)"]

/-- the signature of dataiter/deco.py: obsoletes.wrapper: parameters in order, with the source text of their defaults -/
def deco_obsoletes_wrapper_signature : List String := ["self", "*args", "**kwargs"]

/-- the calls of dataiter/deco.py: obsoletes.wrapper in the order Python makes them along the source text -/
def deco_obsoletes_wrapper_call_order : List String := ["function", "self._mark_obsolete"]

/-- dataiter/deco.py: new_from_generator.wrapper (sha256 of the function source: 0126d48e1ed23c37) -/
def deco_new_from_generator_wrapper (truth : Term → Bool) : Out :=
  let value' : Term := (Term.app "function" [(Term.sym "self"), (Term.app "*" [(Term.sym "args")]), (Term.app "=**" [(Term.sym "kwargs")])]);
  Out.ret [] (Term.app "._new" [(Term.sym "self"), value'])

/-- the decorators of dataiter/deco.py: new_from_generator.wrapper, outermost first -/
def deco_new_from_generator_wrapper_decorators : List String := ["functools.wraps(function)"]

/-- the signature of dataiter/deco.py: new_from_generator.wrapper: parameters in order, with the source text of their defaults -/
def deco_new_from_generator_wrapper_signature : List String := ["self", "*args", "**kwargs"]

/-- the calls of dataiter/deco.py: new_from_generator.wrapper in the order Python makes them along the source text -/
def deco_new_from_generator_wrapper_call_order : List String := ["function", "self._new"]

/-- dataiter/list_of_dicts.py: ListOfDicts.copy (sha256 of the function source: 137155dde933b202) -/
def ListOfDicts_copy2 (truth : Term → Bool) : Out :=
  Out.ret [] (Term.app ".__copy__" [(Term.sym "self")])

/-- the decorators of dataiter/list_of_dicts.py: ListOfDicts.copy, outermost first -/
def ListOfDicts_copy2_decorators : List String := []

/-- the signature of dataiter/list_of_dicts.py: ListOfDicts.copy: parameters in order, with the source text of their defaults -/
def ListOfDicts_copy2_signature : List String := ["self"]

/-- the calls of dataiter/list_of_dicts.py: ListOfDicts.copy in the order Python makes them along the source text -/
def ListOfDicts_copy2_call_order : List String := ["self.__copy__"]

/-- dataiter/list_of_dicts.py: ListOfDicts.deepcopy (sha256 of the function source: fcbd6f8670eb6bd1) -/
def ListOfDicts_deepcopy2 (truth : Term → Bool) : Out :=
  Out.ret [] (Term.app ".__deepcopy__" [(Term.sym "self")])

/-- the decorators of dataiter/list_of_dicts.py: ListOfDicts.deepcopy, outermost first -/
def ListOfDicts_deepcopy2_decorators : List String := []

/-- the signature of dataiter/list_of_dicts.py: ListOfDicts.deepcopy: parameters in order, with the source text of their defaults -/
def ListOfDicts_deepcopy2_signature : List String := ["self"]

/-- the calls of dataiter/list_of_dicts.py: ListOfDicts.deepcopy in the order Python makes them along the source text -/
def ListOfDicts_deepcopy2_call_order : List String := ["self.__deepcopy__"]

end DI.Gen

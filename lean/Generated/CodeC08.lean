/-
  Generated/CodeC08.lean — REGENERATED on every run by harness/py2lean.py from the current source of
  /repo (symbolic execution of small control-flow functions; see Model/PyCore.lean).  Do not edit.
-/
import Model.PyCore

set_option linter.unusedVariables false

namespace DI.Gen

open DI.Py

/-- dataiter/aggregate.py: use_numba (sha256 of the function source: 3941755e55956d50) -/
def aggregate_use_numba (truth : Term → Bool) : Out :=
  Out.ret [] (Term.app "And" [(Term.sym "dataiter.USE_NUMBA"), (Term.app "Or" [(Term.app "np.issubdtype" [(Term.app ".dtype" [(Term.sym "x")]), (Term.sym "np.bool_")]), (Term.app "np.issubdtype" [(Term.app ".dtype" [(Term.sym "x")]), (Term.sym "np.datetime64")]), (Term.app "np.issubdtype" [(Term.app ".dtype" [(Term.sym "x")]), (Term.sym "np.floating")]), (Term.app "np.issubdtype" [(Term.app ".dtype" [(Term.sym "x")]), (Term.sym "np.integer")])]), (Term.app "not" [(Term.app "np.issubdtype" [(Term.app ".dtype" [(Term.sym "x")]), (Term.sym "np.timedelta64")])])])

/-- the decorators of dataiter/aggregate.py: use_numba, outermost first -/
def aggregate_use_numba_decorators : List String := []

/-- the signature of dataiter/aggregate.py: use_numba: parameters in order, with the source text of their defaults -/
def aggregate_use_numba_signature : List String := ["x"]

end DI.Gen

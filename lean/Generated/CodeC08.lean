/-
  Generated/CodeC08.lean — REGENERATED on every run by harness/py2lean.py from the current source of
  /repo (symbolic execution of small control-flow functions; see Model/PyCore.lean).  Do not edit.
-/
import Model.PyCore

set_option linter.unusedVariables false

namespace DI.Gen

open DI.Py

/-- dataiter/aggregate.py: use_numba (sha256 of the function source: 3941755e55956d50) -/
def aggregate_use_numba (truth : Term → Bool) : Out :=
  Out.ret [] (Term.app "And" [(Term.sym "dataiter.USE_NUMBA"), (Term.app "Or" [(Term.app "np.issubdtype" [(Term.app ".dtype" [(Term.sym "x")]), (Term.sym "np.bool_")]), (Term.app "np.issubdtype" [(Term.app ".dtype" [(Term.sym "x")]), (Term.sym "np.datetime64")]), (Term.app "np.issubdtype" [(Term.app ".dtype" [(Term.sym "x")]), (Term.sym "np.floating")]), (Term.app "np.issubdtype" [(Term.app ".dtype" [(Term.sym "x")]), (Term.sym "np.integer")])]), (Term.app "not" [(Term.app "np.issubdtype" [(Term.app ".dtype" [(Term.sym "x")]), (Term.sym "np.timedelta64")])])])

/-- the decorators of dataiter/aggregate.py: use_numba, outermost first -/
def aggregate_use_numba_decorators : List String := []

/-- the signature of dataiter/aggregate.py: use_numba: parameters in order, with the source text of their defaults -/
def aggregate_use_numba_signature : List String := ["x"]

/-- the calls of dataiter/aggregate.py: use_numba in the order Python makes them along the source text -/
def aggregate_use_numba_call_order : List String := ["np.issubdtype", "np.issubdtype", "np.issubdtype", "np.issubdtype", "np.issubdtype"]

/-- dataiter/aggregate.py: quantile_apply (sha256 of the function source: 11777b98628a675b) -/
def agg_quantile_apply_py (truth : Term → Bool) : Out :=
  let eff0 : Term := (Term.app "for" [(Term.sym "xg"), (Term.app "yield_groups" [(Term.sym "x"), (Term.sym "group"), (Term.sym "drop_na")]), (Term.app "block" [(Term.app "yield" [(Term.app "ifexp" [(Term.app "GtE" [(Term.app "len" [(Term.sym "xg")]), (Term.int (1 : Int))]), (Term.app "np.quantile" [(Term.sym "xg"), (Term.sym "q")]), (Term.sym "np.nan")])])])]);
  Out.fall [eff0]

/-- the decorators of dataiter/aggregate.py: quantile_apply, outermost first -/
def agg_quantile_apply_py_decorators : List String := ["deco.listify"]

/-- the signature of dataiter/aggregate.py: quantile_apply: parameters in order, with the source text of their defaults -/
def agg_quantile_apply_py_signature : List String := ["x", "group", "q", "drop_na"]

/-- the calls of dataiter/aggregate.py: quantile_apply in the order Python makes them along the source text -/
def agg_quantile_apply_py_call_order : List String := ["yield_groups", "len", "np.quantile"]

/-- dataiter/aggregate.py: count_unique_apply (sha256 of the function source: 514fa83708f1df5c) -/
def agg_count_unique_apply_py (truth : Term → Bool) : Out :=
  let eff0 : Term := (Term.app "for" [(Term.sym "xg"), (Term.app "yield_groups" [(Term.sym "x"), (Term.sym "group"), (Term.sym "drop_na")]), (Term.app "block" [(Term.app "yield" [(Term.app "len" [(Term.app "set()" [(Term.sym "xg")])])])])]);
  Out.fall [eff0]

/-- the decorators of dataiter/aggregate.py: count_unique_apply, outermost first -/
def agg_count_unique_apply_py_decorators : List String := ["deco.listify"]

/-- the signature of dataiter/aggregate.py: count_unique_apply: parameters in order, with the source text of their defaults -/
def agg_count_unique_apply_py_signature : List String := ["x", "group", "drop_na"]

/-- the calls of dataiter/aggregate.py: count_unique_apply in the order Python makes them along the source text -/
def agg_count_unique_apply_py_call_order : List String := ["yield_groups", "set", "len"]

/-- dataiter/aggregate.py: generic (sha256 of the function source: 4b30718266dcdd31) -/
def agg_generic_py (truth : Term → Bool) : Out :=
  let aggregate' : Term := (Term.app "local-def" [(Term.app "def" [(Term.app "decorator" [(Term.sym "deco.listify")]), (Term.sym "aggregate"), (Term.app "params" [(Term.sym "x"), (Term.sym "group"), (Term.sym "drop_na"), (Term.sym "default"), (Term.sym "nrequired")]), (Term.app "block" [(Term.app "for" [(Term.sym "xg"), (Term.app "yield_groups" [(Term.sym "x"), (Term.sym "group"), (Term.sym "drop_na")]), (Term.app "block" [(Term.app "yield" [(Term.app "ifexp" [(Term.app "GtE" [(Term.app "len" [(Term.sym "xg")]), (Term.sym "nrequired")]), (Term.app "function" [(Term.sym "xg"), (Term.app "=**" [(Term.sym "kwargs")])]), (Term.sym "default")])])])])])])]);
  Out.ret [] aggregate'

/-- the decorators of dataiter/aggregate.py: generic, outermost first -/
def agg_generic_py_decorators : List String := ["functools.lru_cache(256)"]

/-- the signature of dataiter/aggregate.py: generic: parameters in order, with the source text of their defaults -/
def agg_generic_py_signature : List String := ["function", "**kwargs"]

/-- the calls of dataiter/aggregate.py: generic in the order Python makes them along the source text -/
def agg_generic_py_call_order : List String := []

/-- dataiter/aggregate.py: yield_groups (sha256 of the function source: 296f16195c376f16) -/
def agg_yield_groups_py (truth : Term → Bool) : Out :=
  let i' : Int := (0 : Int);
  let n' : Term := (Term.app "len" [(Term.sym "x")]);
  let eff0 : Term := (Term.app "for" [(Term.sym "j"), (Term.app "range" [(Term.int (1 : Int)), (Term.app "Add" [n', (Term.int (1 : Int))])]), (Term.app "block" [(Term.app "if" [(Term.app "And" [(Term.app "Lt" [(Term.sym "j"), n']), (Term.app "Eq" [(Term.app "getitem" [(Term.sym "group"), (Term.sym "j")]), (Term.app "getitem" [(Term.sym "group"), (Term.sym "i")])])]), (Term.app "block" [(Term.sym "continue")]), (Term.app "block" [])]), (Term.app "assign" [(Term.sym "xij"), (Term.app "getitem" [(Term.sym "x"), (Term.app "slice" [(Term.sym "i"), (Term.sym "j")])])]), (Term.app "if" [(Term.sym "drop_na"), (Term.app "block" [(Term.app "assign" [(Term.sym "xij"), (Term.app "getitem" [(Term.sym "xij"), (Term.app "~" [(Term.app ".is_na" [(Term.sym "xij")])])])])]), (Term.app "block" [])]), (Term.app "yield" [(Term.sym "xij")]), (Term.app "assign" [(Term.sym "i"), (Term.sym "j")])]), (Term.app "init" [(Term.sym "i"), (Term.int i')])]);
  let xij' : Term := (Term.app "value-after-loop" [(Term.sym "xij"), eff0]);
  let i' : Term := (Term.app "value-after-loop" [(Term.sym "i"), eff0]);
  Out.fall [eff0]

/-- the decorators of dataiter/aggregate.py: yield_groups, outermost first -/
def agg_yield_groups_py_decorators : List String := []

/-- the signature of dataiter/aggregate.py: yield_groups: parameters in order, with the source text of their defaults -/
def agg_yield_groups_py_signature : List String := ["x", "group", "drop_na"]

/-- the calls of dataiter/aggregate.py: yield_groups in the order Python makes them along the source text -/
def agg_yield_groups_py_call_order : List String := ["len", "range", "xij.is_na"]

/-- dataiter/aggregate.py: yield_groups_numba (sha256 of the function source: 43d0b2cde8766fa2) -/
def agg_yield_groups_numba (truth : Term → Bool) : Out :=
  let i' : Int := (0 : Int);
  let n' : Term := (Term.app "len" [(Term.sym "x")]);
  let out' : Term := (Term.app "list" []);
  let eff0 : Term := (Term.app "for" [(Term.sym "j"), (Term.app "range" [(Term.int (1 : Int)), (Term.app "Add" [n', (Term.int (1 : Int))])]), (Term.app "block" [(Term.app "if" [(Term.app "And" [(Term.app "Lt" [(Term.sym "j"), n']), (Term.app "Eq" [(Term.app "getitem" [(Term.sym "group"), (Term.sym "j")]), (Term.app "getitem" [(Term.sym "group"), (Term.sym "i")])])]), (Term.app "block" [(Term.sym "continue")]), (Term.app "block" [])]), (Term.app "assign" [(Term.sym "xij"), (Term.app "getitem" [(Term.sym "x"), (Term.app "slice" [(Term.sym "i"), (Term.sym "j")])])]), (Term.app "if" [(Term.sym "drop_na"), (Term.app "block" [(Term.app "assign" [(Term.sym "xij"), (Term.app "getitem" [(Term.sym "xij"), (Term.app "~" [(Term.app "is_na_numba" [(Term.sym "xij")])])])])]), (Term.app "block" [])]), (Term.app ".append" [out', (Term.sym "xij")]), (Term.app "assign" [(Term.sym "i"), (Term.sym "j")])]), (Term.app "init" [(Term.sym "i"), (Term.int i')])]);
  let xij' : Term := (Term.app "value-after-loop" [(Term.sym "xij"), eff0]);
  let i' : Term := (Term.app "value-after-loop" [(Term.sym "i"), eff0]);
  Out.ret [eff0] out'

/-- the decorators of dataiter/aggregate.py: yield_groups_numba, outermost first -/
def agg_yield_groups_numba_decorators : List String := ["njit(cache=dataiter.USE_NUMBA_CACHE)"]

/-- the signature of dataiter/aggregate.py: yield_groups_numba: parameters in order, with the source text of their defaults -/
def agg_yield_groups_numba_signature : List String := ["x", "group", "drop_na"]

/-- the calls of dataiter/aggregate.py: yield_groups_numba in the order Python makes them along the source text -/
def agg_yield_groups_numba_call_order : List String := ["len", "range", "is_na_numba", "out.append"]

/-- dataiter/aggregate.py: generic_numba (sha256 of the function source: ea1e6bc5c95ae8d1) -/
def agg_generic_numba (truth : Term → Bool) : Out :=
  let aggregate' : Term := (Term.app "local-def" [(Term.app "def" [(Term.app "decorator" [(Term.app "njit" [(Term.app "=cache" [(Term.sym "dataiter.USE_NUMBA_CACHE")])])]), (Term.sym "aggregate"), (Term.app "params" [(Term.sym "x"), (Term.sym "group"), (Term.sym "drop_na"), (Term.sym "default"), (Term.sym "nrequired")]), (Term.app "block" [(Term.app "assign" [(Term.sym "out"), (Term.app "list" [])]), (Term.app "for" [(Term.sym "xg"), (Term.app "yield_groups_numba" [(Term.sym "x"), (Term.sym "group"), (Term.sym "drop_na")]), (Term.app "block" [(Term.app ".append" [(Term.sym "out"), (Term.app "ifexp" [(Term.app "GtE" [(Term.app "len" [(Term.sym "xg")]), (Term.sym "nrequired")]), (Term.app "function" [(Term.sym "xg")]), (Term.sym "default")])])])]), (Term.app "return" [(Term.sym "out")])])])]);
  Out.ret [] aggregate'

/-- the decorators of dataiter/aggregate.py: generic_numba, outermost first -/
def agg_generic_numba_decorators : List String := ["functools.lru_cache(256)"]

/-- the signature of dataiter/aggregate.py: generic_numba: parameters in order, with the source text of their defaults -/
def agg_generic_numba_signature : List String := ["function"]

/-- the calls of dataiter/aggregate.py: generic_numba in the order Python makes them along the source text -/
def agg_generic_numba_call_order : List String := []

/-- dataiter/aggregate.py: nth_apply_numba (sha256 of the function source: e7bc68c7796fa963) -/
def agg_nth_apply_numba (truth : Term → Bool) : Out :=
  let out' : Term := (Term.app "list" []);
  let eff0 : Term := (Term.app "for" [(Term.sym "xg"), (Term.app "yield_groups_numba" [(Term.sym "x"), (Term.sym "group"), (Term.sym "drop_na")]), (Term.app "block" [(Term.app "if" [(Term.app "Or" [(Term.app "LtE/Lt" [(Term.int (0 : Int)), (Term.sym "index"), (Term.app "len" [(Term.sym "xg")])]), (Term.app "LtE/Lt" [(Term.app "neg" [(Term.app "len" [(Term.sym "xg")])]), (Term.sym "index"), (Term.int (0 : Int))])]), (Term.app "block" [(Term.app ".append" [out', (Term.app "getitem" [(Term.sym "xg"), (Term.sym "index")])])]), (Term.app "block" [(Term.app ".append" [out', (Term.sym "None")])])])])]);
  Out.ret [eff0] out'

/-- the decorators of dataiter/aggregate.py: nth_apply_numba, outermost first -/
def agg_nth_apply_numba_decorators : List String := ["njit(cache=dataiter.USE_NUMBA_CACHE)"]

/-- the signature of dataiter/aggregate.py: nth_apply_numba: parameters in order, with the source text of their defaults -/
def agg_nth_apply_numba_signature : List String := ["x", "group", "index", "drop_na"]

/-- the calls of dataiter/aggregate.py: nth_apply_numba in the order Python makes them along the source text -/
def agg_nth_apply_numba_call_order : List String := ["yield_groups_numba", "len", "len", "out.append", "out.append"]

/-- dataiter/aggregate.py: mode_apply_numba (sha256 of the function source: 987e8b38f21ab8dd) -/
def agg_mode_apply_numba (truth : Term → Bool) : Out :=
  let out' : Term := (Term.app "list" []);
  let eff0 : Term := (Term.app "for" [(Term.sym "xg"), (Term.app "yield_groups_numba" [(Term.sym "x"), (Term.sym "group"), (Term.sym "drop_na")]), (Term.app "block" [(Term.app "if" [(Term.app "Gt" [(Term.app "len" [(Term.sym "xg")]), (Term.int (0 : Int))]), (Term.app "block" [(Term.app "assign" [(Term.sym "ng"), (Term.app "np.full" [(Term.app "len" [(Term.sym "xg")]), (Term.int (0 : Int))])]), (Term.app "for" [(Term.sym "i"), (Term.app "range" [(Term.app "len" [(Term.sym "xg")])]), (Term.app "block" [(Term.app "for" [(Term.sym "j"), (Term.app "range" [(Term.app "len" [(Term.sym "xg")])]), (Term.app "block" [(Term.app "if" [(Term.app "Eq" [(Term.app "getitem" [(Term.sym "xg"), (Term.sym "j")]), (Term.app "getitem" [(Term.sym "xg"), (Term.sym "i")])]), (Term.app "block" [(Term.app "store" [(Term.app "getitem" [(Term.sym "ng"), (Term.sym "i")]), (Term.app "Add=" [(Term.app "getitem" [(Term.sym "ng"), (Term.sym "i")]), (Term.int (1 : Int))])])]), (Term.app "block" [])])])])])]), (Term.app ".append" [out', (Term.app "getitem" [(Term.sym "xg"), (Term.app "np.argmax" [(Term.sym "ng")])])])]), (Term.app "block" [(Term.app ".append" [out', (Term.sym "None")])])])])]);
  let ng' : Term := (Term.app "value-after-loop" [(Term.sym "ng"), eff0]);
  Out.ret [eff0] out'

/-- the decorators of dataiter/aggregate.py: mode_apply_numba, outermost first -/
def agg_mode_apply_numba_decorators : List String := ["njit(cache=dataiter.USE_NUMBA_CACHE)"]

/-- the signature of dataiter/aggregate.py: mode_apply_numba: parameters in order, with the source text of their defaults -/
def agg_mode_apply_numba_signature : List String := ["x", "group", "drop_na"]

/-- the calls of dataiter/aggregate.py: mode_apply_numba in the order Python makes them along the source text -/
def agg_mode_apply_numba_call_order : List String := ["yield_groups_numba", "len", "len", "np.full", "len", "range", "len", "range", "np.argmax", "out.append", "out.append"]

/-- dataiter/aggregate.py: count_unique_apply_numba (sha256 of the function source: 7318b9d95d44cce7) -/
def agg_count_unique_apply_numba (truth : Term → Bool) : Out :=
  let out' : Term := (Term.app "list" []);
  let eff0 : Term := (Term.app "for" [(Term.sym "xg"), (Term.app "yield_groups_numba" [(Term.sym "x"), (Term.sym "group"), (Term.sym "drop_na")]), (Term.app "block" [(Term.app "assign" [(Term.sym "na"), (Term.app "is_na_numba" [(Term.sym "xg")])]), (Term.app ".append" [out', (Term.app "Add" [(Term.app "len" [(Term.app "np.unique" [(Term.app "getitem" [(Term.sym "xg"), (Term.app "~" [(Term.sym "na")])])])]), (Term.app ".sum" [(Term.sym "na")])])])])]);
  let na' : Term := (Term.app "value-after-loop" [(Term.sym "na"), eff0]);
  Out.ret [eff0] out'

/-- the decorators of dataiter/aggregate.py: count_unique_apply_numba, outermost first -/
def agg_count_unique_apply_numba_decorators : List String := ["njit(cache=dataiter.USE_NUMBA_CACHE)"]

/-- the signature of dataiter/aggregate.py: count_unique_apply_numba: parameters in order, with the source text of their defaults -/
def agg_count_unique_apply_numba_signature : List String := ["x", "group", "drop_na"]

/-- the calls of dataiter/aggregate.py: count_unique_apply_numba in the order Python makes them along the source text -/
def agg_count_unique_apply_numba_call_order : List String := ["yield_groups_numba", "is_na_numba", "np.unique", "len", "na.sum", "out.append"]

/-- dataiter/aggregate.py: quantile_apply_numba (sha256 of the function source: 88f87ef1906a9386) -/
def agg_quantile_apply_numba (truth : Term → Bool) : Out :=
  let out' : Term := (Term.app "list" []);
  let eff0 : Term := (Term.app "for" [(Term.sym "xg"), (Term.app "yield_groups_numba" [(Term.sym "x"), (Term.sym "group"), (Term.sym "drop_na")]), (Term.app "block" [(Term.app ".append" [out', (Term.app "ifexp" [(Term.app "GtE" [(Term.app "len" [(Term.sym "xg")]), (Term.int (1 : Int))]), (Term.app "np.quantile" [(Term.sym "xg"), (Term.sym "q")]), (Term.sym "np.nan")])])])]);
  Out.ret [eff0] out'

/-- the decorators of dataiter/aggregate.py: quantile_apply_numba, outermost first -/
def agg_quantile_apply_numba_decorators : List String := ["njit(cache=dataiter.USE_NUMBA_CACHE)"]

/-- the signature of dataiter/aggregate.py: quantile_apply_numba: parameters in order, with the source text of their defaults -/
def agg_quantile_apply_numba_signature : List String := ["x", "group", "q", "drop_na"]

/-- the calls of dataiter/aggregate.py: quantile_apply_numba in the order Python makes them along the source text -/
def agg_quantile_apply_numba_call_order : List String := ["yield_groups_numba", "len", "np.quantile", "out.append"]

/-- dataiter/aggregate.py: is_na_numba (sha256 of the function source: 950926df5f0cccb5) -/
def agg_is_na_numba (truth : Term → Bool) : Out :=
  let na' : Term := (Term.app "np.full" [(Term.app "len" [(Term.sym "x")]), (Term.sym "False")]);
  let eff0 : Term := (Term.app "for" [(Term.sym "i"), (Term.app "range" [(Term.app "len" [(Term.sym "x")])]), (Term.app "block" [(Term.app "store" [(Term.app "getitem" [na', (Term.sym "i")]), (Term.app "is_na_item_numba" [(Term.app "getitem" [(Term.sym "x"), (Term.sym "i")])])])])]);
  Out.ret [eff0] na'

/-- the decorators of dataiter/aggregate.py: is_na_numba, outermost first -/
def agg_is_na_numba_decorators : List String := ["njit(cache=dataiter.USE_NUMBA_CACHE)"]

/-- the signature of dataiter/aggregate.py: is_na_numba: parameters in order, with the source text of their defaults -/
def agg_is_na_numba_signature : List String := ["x"]

/-- the calls of dataiter/aggregate.py: is_na_numba in the order Python makes them along the source text -/
def agg_is_na_numba_call_order : List String := ["len", "np.full", "len", "range", "is_na_item_numba"]

/-- dataiter/aggregate.py: generic_numba.aggregate (sha256 of the function source: 6ae11235622137ff) -/
def agg_generic_numba_aggregate (truth : Term → Bool) : Out :=
  let out' : Term := (Term.app "list" []);
  let eff0 : Term := (Term.app "for" [(Term.sym "xg"), (Term.app "yield_groups_numba" [(Term.sym "x"), (Term.sym "group"), (Term.sym "drop_na")]), (Term.app "block" [(Term.app ".append" [out', (Term.app "ifexp" [(Term.app "GtE" [(Term.app "len" [(Term.sym "xg")]), (Term.sym "nrequired")]), (Term.app "function" [(Term.sym "xg")]), (Term.sym "default")])])])]);
  Out.ret [eff0] out'

/-- the decorators of dataiter/aggregate.py: generic_numba.aggregate, outermost first -/
def agg_generic_numba_aggregate_decorators : List String := ["njit(cache=dataiter.USE_NUMBA_CACHE)"]

/-- the signature of dataiter/aggregate.py: generic_numba.aggregate: parameters in order, with the source text of their defaults -/
def agg_generic_numba_aggregate_signature : List String := ["x", "group", "drop_na", "default", "nrequired"]

/-- the calls of dataiter/aggregate.py: generic_numba.aggregate in the order Python makes them along the source text -/
def agg_generic_numba_aggregate_call_order : List String := ["yield_groups_numba", "len", "function", "out.append"]

/-- dataiter/aggregate.py: is_na_item_numba (sha256 of the function source: 741b6fc0fc4d53ba) -/
def agg_is_na_item_numba (truth : Term → Bool) : Out :=
  Out.raise [] "NotImplementedError"

/-- the decorators of dataiter/aggregate.py: is_na_item_numba, outermost first -/
def agg_is_na_item_numba_decorators : List String := []

/-- the signature of dataiter/aggregate.py: is_na_item_numba: parameters in order, with the source text of their defaults -/
def agg_is_na_item_numba_signature : List String := ["x"]

/-- the calls of dataiter/aggregate.py: is_na_item_numba in the order Python makes them along the source text -/
def agg_is_na_item_numba_call_order : List String := []

/-- dataiter/aggregate.py: is_na_item_numba_overload (sha256 of the function source: 4d2ae6c7f41732d1) -/
def agg_is_na_item_numba_overload (truth : Term → Bool) : Out :=
  if truth (Term.app "isinstance" [(Term.sym "x"), (Term.sym "types.Float")]) then
    Out.ret [] (Term.app "lambda" [(Term.app "params" [(Term.sym "x")]), (Term.app "np.isnan" [(Term.sym "x")])])
  else
    if truth (Term.app "isinstance" [(Term.sym "x"), (Term.sym "types.NPDatetime")]) then
      Out.ret [] (Term.app "lambda" [(Term.app "params" [(Term.sym "x")]), (Term.app "np.isnat" [(Term.sym "x")])])
    else
      if truth (Term.app "isinstance" [(Term.sym "x"), (Term.sym "types.UnicodeType")]) then
        Out.ret [] (Term.app "lambda" [(Term.app "params" [(Term.sym "x")]), (Term.app "Eq" [(Term.sym "x"), (Term.sym "''")])])
      else
        Out.ret [] (Term.app "lambda" [(Term.app "params" [(Term.sym "x")]), (Term.sym "False")])

/-- the decorators of dataiter/aggregate.py: is_na_item_numba_overload, outermost first -/
def agg_is_na_item_numba_overload_decorators : List String := ["overload(is_na_item_numba)"]

/-- the signature of dataiter/aggregate.py: is_na_item_numba_overload: parameters in order, with the source text of their defaults -/
def agg_is_na_item_numba_overload_signature : List String := ["x"]

/-- the calls of dataiter/aggregate.py: is_na_item_numba_overload in the order Python makes them along the source text -/
def agg_is_na_item_numba_overload_call_order : List String := ["isinstance", "isinstance", "isinstance"]

/-- dataiter/util.py: parse_env_boolean (sha256 of the function source: d7a10de2db0add60) -/
def util_parse_env_boolean (truth : Term → Bool) : Out :=
  Out.ret [] (Term.app "getitem" [(Term.app "dict" [(Term.app "pair" [(Term.sym "'1'"), (Term.sym "True")]), (Term.app "pair" [(Term.sym "'t'"), (Term.sym "True")]), (Term.app "pair" [(Term.sym "'true'"), (Term.sym "True")]), (Term.app "pair" [(Term.sym "'y'"), (Term.sym "True")]), (Term.app "pair" [(Term.sym "'yes'"), (Term.sym "True")]), (Term.app "pair" [(Term.sym "'0'"), (Term.sym "False")]), (Term.app "pair" [(Term.sym "'f'"), (Term.sym "False")]), (Term.app "pair" [(Term.sym "'false'"), (Term.sym "False")]), (Term.app "pair" [(Term.sym "'n'"), (Term.sym "False")]), (Term.app "pair" [(Term.sym "'no'"), (Term.sym "False")])]), (Term.app ".lower" [(Term.app ".strip" [(Term.app "getitem" [(Term.sym "os.environ"), (Term.sym "name")])])])])

/-- the decorators of dataiter/util.py: parse_env_boolean, outermost first -/
def util_parse_env_boolean_decorators : List String := []

/-- the signature of dataiter/util.py: parse_env_boolean: parameters in order, with the source text of their defaults -/
def util_parse_env_boolean_signature : List String := ["name"]

/-- the calls of dataiter/util.py: parse_env_boolean in the order Python makes them along the source text -/
def util_parse_env_boolean_call_order : List String := ["os.environ[name].strip", "os.environ[name].strip().lower"]

end DI.Gen

/-
  Generated/CodeC07.lean — REGENERATED on every run by harness/py2lean.py from the current source of
  /repo (symbolic execution of small control-flow functions; see Model/PyCore.lean).  Do not edit.
-/
import Model.PyCore

set_option linter.unusedVariables false

namespace DI.Gen

open DI.Py

/-- dataiter/aggregate.py: yield_groups (sha256 of the function source: 296f16195c376f16) -/
def agg_yield_groups (truth : Term → Bool) : Out :=
  let i' : Int := (0 : Int);
  let n' : Term := (Term.app "len" [(Term.sym "x")]);
  let eff0 : Term := (Term.app "for" [(Term.sym "j"), (Term.app "range" [(Term.int (1 : Int)), (Term.app "Add" [n', (Term.int (1 : Int))])]), (Term.app "block" [(Term.app "if" [(Term.app "And" [(Term.app "Lt" [(Term.sym "j"), n']), (Term.app "Eq" [(Term.app "getitem" [(Term.sym "group"), (Term.sym "j")]), (Term.app "getitem" [(Term.sym "group"), (Term.sym "i")])])]), (Term.app "block" [(Term.sym "continue")]), (Term.app "block" [])]), (Term.app "assign" [(Term.sym "xij"), (Term.app "getitem" [(Term.sym "x"), (Term.app "slice" [(Term.sym "i"), (Term.sym "j")])])]), (Term.app "if" [(Term.sym "drop_na"), (Term.app "block" [(Term.app "assign" [(Term.sym "xij"), (Term.app "getitem" [(Term.sym "xij"), (Term.app "~" [(Term.app ".is_na" [(Term.sym "xij")])])])])]), (Term.app "block" [])]), (Term.app "yield" [(Term.sym "xij")]), (Term.app "assign" [(Term.sym "i"), (Term.sym "j")])]), (Term.app "init" [(Term.sym "i"), (Term.int i')])]);
  let xij' : Term := (Term.app "value-after-loop" [(Term.sym "xij"), eff0]);
  let i' : Term := (Term.app "value-after-loop" [(Term.sym "i"), eff0]);
  Out.fall [eff0]

/-- the decorators of dataiter/aggregate.py: yield_groups, outermost first -/
def agg_yield_groups_decorators : List String := []

/-- the signature of dataiter/aggregate.py: yield_groups: parameters in order, with the source text of their defaults -/
def agg_yield_groups_signature : List String := ["x", "group", "drop_na"]

/-- the calls of dataiter/aggregate.py: yield_groups in the order Python makes them along the source text -/
def agg_yield_groups_call_order : List String := ["len", "range", "xij.is_na"]

/-- dataiter/aggregate.py: handle_na (sha256 of the function source: b5a121b73e5dfc67) -/
def agg_handle_na (truth : Term → Bool) : Out :=
  Out.ret [] (if truth (Term.sym "drop_na") then (Term.app "getitem" [(Term.sym "x"), (Term.app "~" [(Term.app ".is_na" [(Term.sym "x")])])]) else (Term.sym "x"))

/-- the decorators of dataiter/aggregate.py: handle_na, outermost first -/
def agg_handle_na_decorators : List String := []

/-- the signature of dataiter/aggregate.py: handle_na: parameters in order, with the source text of their defaults -/
def agg_handle_na_signature : List String := ["x", "drop_na"]

/-- the calls of dataiter/aggregate.py: handle_na in the order Python makes them along the source text -/
def agg_handle_na_call_order : List String := ["x.is_na"]

/-- dataiter/aggregate.py: generic (sha256 of the function source: 4b30718266dcdd31) -/
def agg_generic (truth : Term → Bool) : Out :=
  let aggregate' : Term := (Term.app "local-def" [(Term.app "def" [(Term.app "decorator" [(Term.sym "deco.listify")]), (Term.sym "aggregate"), (Term.app "params" [(Term.sym "x"), (Term.sym "group"), (Term.sym "drop_na"), (Term.sym "default"), (Term.sym "nrequired")]), (Term.app "block" [(Term.app "for" [(Term.sym "xg"), (Term.app "yield_groups" [(Term.sym "x"), (Term.sym "group"), (Term.sym "drop_na")]), (Term.app "block" [(Term.app "yield" [(Term.app "ifexp" [(Term.app "GtE" [(Term.app "len" [(Term.sym "xg")]), (Term.sym "nrequired")]), (Term.app "function" [(Term.sym "xg"), (Term.app "=**" [(Term.sym "kwargs")])]), (Term.sym "default")])])])])])])]);
  Out.ret [] aggregate'

/-- the decorators of dataiter/aggregate.py: generic, outermost first -/
def agg_generic_decorators : List String := ["functools.lru_cache(256)"]

/-- the signature of dataiter/aggregate.py: generic: parameters in order, with the source text of their defaults -/
def agg_generic_signature : List String := ["function", "**kwargs"]

/-- the calls of dataiter/aggregate.py: generic in the order Python makes them along the source text -/
def agg_generic_call_order : List String := []

/-- dataiter/aggregate.py: nth_apply (sha256 of the function source: 89d9df6c78d5dcce) -/
def agg_nth_apply (truth : Term → Bool) : Out :=
  let eff0 : Term := (Term.app "for" [(Term.sym "xg"), (Term.app "yield_groups" [(Term.sym "x"), (Term.sym "group"), (Term.sym "drop_na")]), (Term.app "block" [(Term.app "try" [(Term.app "block" [(Term.app "yield" [(Term.app "getitem" [(Term.sym "xg"), (Term.sym "index")])])]), (Term.app "except" [(Term.sym "IndexError"), (Term.app "block" [(Term.app "yield" [(Term.sym "None")])])]), (Term.app "else" [(Term.app "block" [])]), (Term.app "finally" [(Term.app "block" [])])])])]);
  Out.fall [eff0]

/-- the decorators of dataiter/aggregate.py: nth_apply, outermost first -/
def agg_nth_apply_decorators : List String := ["deco.listify"]

/-- the signature of dataiter/aggregate.py: nth_apply: parameters in order, with the source text of their defaults -/
def agg_nth_apply_signature : List String := ["x", "group", "index", "drop_na"]

/-- the calls of dataiter/aggregate.py: nth_apply in the order Python makes them along the source text -/
def agg_nth_apply_call_order : List String := ["yield_groups"]

/-- dataiter/aggregate.py: mode_apply (sha256 of the function source: 28de28a60ad4a017) -/
def agg_mode_apply (truth : Term → Bool) : Out :=
  let eff0 : Term := (Term.app "for" [(Term.sym "xg"), (Term.app "yield_groups" [(Term.sym "x"), (Term.sym "group"), (Term.sym "drop_na")]), (Term.app "block" [(Term.app "yield" [(Term.app "ifexp" [(Term.app "GtE" [(Term.app "len" [(Term.sym "xg")]), (Term.int (1 : Int))]), (Term.app "mode1" [(Term.sym "xg")]), (Term.sym "None")])])])]);
  Out.fall [eff0]

/-- the decorators of dataiter/aggregate.py: mode_apply, outermost first -/
def agg_mode_apply_decorators : List String := ["deco.listify"]

/-- the signature of dataiter/aggregate.py: mode_apply: parameters in order, with the source text of their defaults -/
def agg_mode_apply_signature : List String := ["x", "group", "drop_na"]

/-- the calls of dataiter/aggregate.py: mode_apply in the order Python makes them along the source text -/
def agg_mode_apply_call_order : List String := ["yield_groups", "len", "mode1"]

/-- dataiter/aggregate.py: mode1 (sha256 of the function source: 1db6924678126c68) -/
def agg_mode1 (truth : Term → Bool) : Out :=
  let eff0 : Term := (Term.app "stmt" [(Term.app "try" [(Term.app "block" [(Term.app "return" [(Term.app "statistics.mode" [(Term.sym "x")])])]), (Term.app "except" [(Term.sym "statistics.StatisticsError"), (Term.app "block" [(Term.app "return" [(Term.app "getitem" [(Term.app "getitem" [(Term.app ".most_common" [(Term.app "Counter" [(Term.sym "x")]), (Term.int (1 : Int))]), (Term.int (0 : Int))]), (Term.int (0 : Int))])])])]), (Term.app "else" [(Term.app "block" [])]), (Term.app "finally" [(Term.app "block" [])])])]);
  Out.fall [eff0]

/-- the decorators of dataiter/aggregate.py: mode1, outermost first -/
def agg_mode1_decorators : List String := []

/-- the signature of dataiter/aggregate.py: mode1: parameters in order, with the source text of their defaults -/
def agg_mode1_signature : List String := ["x"]

/-- the calls of dataiter/aggregate.py: mode1 in the order Python makes them along the source text -/
def agg_mode1_call_order : List String := ["statistics.mode", "Counter", "Counter(x).most_common"]

/-- dataiter/aggregate.py: count_unique_apply (sha256 of the function source: 514fa83708f1df5c) -/
def agg_count_unique_apply (truth : Term → Bool) : Out :=
  let eff0 : Term := (Term.app "for" [(Term.sym "xg"), (Term.app "yield_groups" [(Term.sym "x"), (Term.sym "group"), (Term.sym "drop_na")]), (Term.app "block" [(Term.app "yield" [(Term.app "len" [(Term.app "set()" [(Term.sym "xg")])])])])]);
  Out.fall [eff0]

/-- the decorators of dataiter/aggregate.py: count_unique_apply, outermost first -/
def agg_count_unique_apply_decorators : List String := ["deco.listify"]

/-- the signature of dataiter/aggregate.py: count_unique_apply: parameters in order, with the source text of their defaults -/
def agg_count_unique_apply_signature : List String := ["x", "group", "drop_na"]

/-- the calls of dataiter/aggregate.py: count_unique_apply in the order Python makes them along the source text -/
def agg_count_unique_apply_call_order : List String := ["yield_groups", "set", "len"]

/-- dataiter/aggregate.py: quantile_apply (sha256 of the function source: 11777b98628a675b) -/
def agg_quantile_apply (truth : Term → Bool) : Out :=
  let eff0 : Term := (Term.app "for" [(Term.sym "xg"), (Term.app "yield_groups" [(Term.sym "x"), (Term.sym "group"), (Term.sym "drop_na")]), (Term.app "block" [(Term.app "yield" [(Term.app "ifexp" [(Term.app "GtE" [(Term.app "len" [(Term.sym "xg")]), (Term.int (1 : Int))]), (Term.app "np.quantile" [(Term.sym "xg"), (Term.sym "q")]), (Term.sym "np.nan")])])])]);
  Out.fall [eff0]

/-- the decorators of dataiter/aggregate.py: quantile_apply, outermost first -/
def agg_quantile_apply_decorators : List String := ["deco.listify"]

/-- the signature of dataiter/aggregate.py: quantile_apply: parameters in order, with the source text of their defaults -/
def agg_quantile_apply_signature : List String := ["x", "group", "q", "drop_na"]

/-- the calls of dataiter/aggregate.py: quantile_apply in the order Python makes them along the source text -/
def agg_quantile_apply_call_order : List String := ["yield_groups", "len", "np.quantile"]

/-- dataiter/aggregate.py: std (sha256 of the function source: d67175fb969f0bcd) -/
def agg_std (truth : Term → Bool) : Out :=
  if truth (Term.app "isinstance" [(Term.sym "x"), (Term.sym "str")]) then
    let aggregate' : Term := (Term.app "local-def" [(Term.app "def" [(Term.sym "aggregate"), (Term.app "params" [(Term.sym "data")]), (Term.app "block" [(Term.app "if" [(Term.app "Eq" [(Term.sym "ddof"), (Term.int (0 : Int))]), (Term.app "block" [(Term.app "assign" [(Term.sym "f"), (Term.app "tuple" [(Term.sym "generic"), (Term.sym "generic_numba")])]), (Term.app "assign" [(Term.sym "f"), (Term.app "call" [(Term.app "select" [(Term.sym "f"), (Term.sym "data"), (Term.sym "x")]), (Term.sym "np.std")])])]), (Term.app "block" [(Term.app "assign" [(Term.sym "f"), (Term.app "generic" [(Term.sym "np.std"), (Term.app "=ddof" [(Term.sym "ddof")])])])])]), (Term.app "store" [(Term.sym "aggregate.default"), (Term.sym "np.nan")]), (Term.app "return" [(Term.app "f" [(Term.app "getitem" [(Term.sym "data"), (Term.sym "x")]), (Term.app "._group_" [(Term.sym "data")]), (Term.app "=drop_na" [(Term.app "And" [(Term.sym "drop_na"), (Term.app ".any" [(Term.app ".is_na" [(Term.app "getitem" [(Term.sym "data"), (Term.sym "x")])])])])]), (Term.app "=default" [(Term.sym "np.nan")]), (Term.app "=nrequired" [(Term.int (2 : Int))])])])])])]);
    let attr0_2' : Term := (Term.sym "True");
    let eff0 : Term := (Term.app "setattr" [aggregate', (Term.sym "group_aware"), attr0_2']);
    Out.ret [eff0] aggregate'
  else
    let x' : Term := (Term.app "handle_na" [(Term.sym "x"), (Term.sym "drop_na")]);
    Out.ret [] (if truth (Term.app "GtE" [(Term.app "len" [x']), (Term.int (2 : Int))]) then (Term.app ".item" [(Term.app "np.std" [x', (Term.app "=ddof" [(Term.sym "ddof")])])]) else (Term.sym "np.nan"))

/-- the decorators of dataiter/aggregate.py: std, outermost first -/
def agg_std_decorators : List String := ["composite"]

/-- the signature of dataiter/aggregate.py: std: parameters in order, with the source text of their defaults -/
def agg_std_signature : List String := ["x", "*", "ddof=0", "drop_na=True"]

/-- the calls of dataiter/aggregate.py: std in the order Python makes them along the source text -/
def agg_std_call_order : List String := ["isinstance", "handle_na", "len", "np.std", "np.std(x, ddof=ddof).item"]

/-- dataiter/aggregate.py: var (sha256 of the function source: 7a07f0478eb2200e) -/
def agg_var (truth : Term → Bool) : Out :=
  if truth (Term.app "isinstance" [(Term.sym "x"), (Term.sym "str")]) then
    let aggregate' : Term := (Term.app "local-def" [(Term.app "def" [(Term.sym "aggregate"), (Term.app "params" [(Term.sym "data")]), (Term.app "block" [(Term.app "if" [(Term.app "Eq" [(Term.sym "ddof"), (Term.int (0 : Int))]), (Term.app "block" [(Term.app "assign" [(Term.sym "f"), (Term.app "tuple" [(Term.sym "generic"), (Term.sym "generic_numba")])]), (Term.app "assign" [(Term.sym "f"), (Term.app "call" [(Term.app "select" [(Term.sym "f"), (Term.sym "data"), (Term.sym "x")]), (Term.sym "np.var")])])]), (Term.app "block" [(Term.app "assign" [(Term.sym "f"), (Term.app "generic" [(Term.sym "np.var"), (Term.app "=ddof" [(Term.sym "ddof")])])])])]), (Term.app "store" [(Term.sym "aggregate.default"), (Term.sym "np.nan")]), (Term.app "return" [(Term.app "f" [(Term.app "getitem" [(Term.sym "data"), (Term.sym "x")]), (Term.app "._group_" [(Term.sym "data")]), (Term.app "=drop_na" [(Term.app "And" [(Term.sym "drop_na"), (Term.app ".any" [(Term.app ".is_na" [(Term.app "getitem" [(Term.sym "data"), (Term.sym "x")])])])])]), (Term.app "=default" [(Term.sym "np.nan")]), (Term.app "=nrequired" [(Term.int (2 : Int))])])])])])]);
    let attr0_2' : Term := (Term.sym "True");
    let eff0 : Term := (Term.app "setattr" [aggregate', (Term.sym "group_aware"), attr0_2']);
    Out.ret [eff0] aggregate'
  else
    let x' : Term := (Term.app "handle_na" [(Term.sym "x"), (Term.sym "drop_na")]);
    Out.ret [] (if truth (Term.app "GtE" [(Term.app "len" [x']), (Term.int (2 : Int))]) then (Term.app ".item" [(Term.app "np.var" [x', (Term.app "=ddof" [(Term.sym "ddof")])])]) else (Term.sym "np.nan"))

/-- the decorators of dataiter/aggregate.py: var, outermost first -/
def agg_var_decorators : List String := ["composite"]

/-- the signature of dataiter/aggregate.py: var: parameters in order, with the source text of their defaults -/
def agg_var_signature : List String := ["x", "*", "ddof=0", "drop_na=True"]

/-- the calls of dataiter/aggregate.py: var in the order Python makes them along the source text -/
def agg_var_call_order : List String := ["isinstance", "handle_na", "len", "np.var", "np.var(x, ddof=ddof).item"]

/-- dataiter/aggregate.py: sum (sha256 of the function source: ef871117103e284f) -/
def agg_sum (truth : Term → Bool) : Out :=
  if truth (Term.app "isinstance" [(Term.sym "x"), (Term.sym "str")]) then
    let aggregate' : Term := (Term.app "local-def" [(Term.app "def" [(Term.sym "aggregate"), (Term.app "params" [(Term.sym "data")]), (Term.app "block" [(Term.app "assign" [(Term.sym "f"), (Term.app "tuple" [(Term.sym "generic"), (Term.sym "generic_numba")])]), (Term.app "assign" [(Term.sym "f"), (Term.app "call" [(Term.app "select" [(Term.sym "f"), (Term.sym "data"), (Term.sym "x")]), (Term.sym "np.sum")])]), (Term.app "store" [(Term.sym "aggregate.default"), (Term.int (0 : Int))]), (Term.app "return" [(Term.app "call" [(Term.sym "f"), (Term.app "getitem" [(Term.sym "data"), (Term.sym "x")]), (Term.app "._group_" [(Term.sym "data")]), (Term.app "=drop_na" [(Term.app "And" [(Term.sym "drop_na"), (Term.app ".any" [(Term.app ".is_na" [(Term.app "getitem" [(Term.sym "data"), (Term.sym "x")])])])])]), (Term.app "=default" [(Term.app ".type" [(Term.app ".dtype" [(Term.app "getitem" [(Term.sym "data"), (Term.sym "x")])]), (Term.int (0 : Int))])]), (Term.app "=nrequired" [(Term.int (0 : Int))])])])])])]);
    let attr0_2' : Term := (Term.sym "True");
    let eff0 : Term := (Term.app "setattr" [aggregate', (Term.sym "group_aware"), attr0_2']);
    Out.ret [eff0] aggregate'
  else
    let x' : Term := (Term.app "handle_na" [(Term.sym "x"), (Term.sym "drop_na")]);
    Out.ret [] (Term.app ".item" [(Term.app "np.sum" [x'])])

/-- the decorators of dataiter/aggregate.py: sum, outermost first -/
def agg_sum_decorators : List String := ["composite"]

/-- the signature of dataiter/aggregate.py: sum: parameters in order, with the source text of their defaults -/
def agg_sum_signature : List String := ["x", "*", "drop_na=True"]

/-- the calls of dataiter/aggregate.py: sum in the order Python makes them along the source text -/
def agg_sum_call_order : List String := ["isinstance", "handle_na", "np.sum", "np.sum(x).item"]

/-- dataiter/aggregate.py: nth (sha256 of the function source: 65ddc9ad392f098c) -/
def agg_nth (truth : Term → Bool) : Out :=
  if truth (Term.app "isinstance" [(Term.sym "x"), (Term.sym "str")]) then
    let aggregate' : Term := (Term.app "local-def" [(Term.app "def" [(Term.sym "aggregate"), (Term.app "params" [(Term.sym "data")]), (Term.app "block" [(Term.app "assign" [(Term.sym "f"), (Term.app "tuple" [(Term.sym "nth_apply"), (Term.sym "nth_apply_numba")])]), (Term.app "assign" [(Term.sym "f"), (Term.app "select" [(Term.sym "f"), (Term.sym "data"), (Term.sym "x")])]), (Term.app "store" [(Term.sym "aggregate.default"), (Term.app ".na_value" [(Term.app "getitem" [(Term.sym "data"), (Term.sym "x")])])]), (Term.app "return" [(Term.app "call" [(Term.sym "f"), (Term.app "getitem" [(Term.sym "data"), (Term.sym "x")]), (Term.app "._group_" [(Term.sym "data")]), (Term.sym "index"), (Term.app "=drop_na" [(Term.app "And" [(Term.sym "drop_na"), (Term.app ".any" [(Term.app ".is_na" [(Term.app "getitem" [(Term.sym "data"), (Term.sym "x")])])])])])])])])])]);
    let attr0_2' : Term := (Term.sym "True");
    let eff0 : Term := (Term.app "setattr" [aggregate', (Term.sym "group_aware"), attr0_2']);
    Out.ret [eff0] aggregate'
  else
    let x' : Term := (Term.app "handle_na" [(Term.sym "x"), (Term.sym "drop_na")]);
    let eff0 : Term := (Term.app "stmt" [(Term.app "try" [(Term.app "block" [(Term.app "assign" [(Term.sym "value"), (Term.app "getitem" [x', (Term.sym "index")])])]), (Term.app "except" [(Term.sym "IndexError"), (Term.app "block" [(Term.app "return" [(Term.app ".na_value" [x'])])])]), (Term.app "else" [(Term.app "block" [])]), (Term.app "finally" [(Term.app "block" [])])])]);
    let value' : Term := (Term.app "value-after-loop" [(Term.sym "value"), eff0]);
    Out.ret [eff0] (if truth (Term.app "hasattr" [value', (Term.sym "'item'")]) then (Term.app ".item" [value']) else value')

/-- the decorators of dataiter/aggregate.py: nth, outermost first -/
def agg_nth_decorators : List String := ["composite"]

/-- the signature of dataiter/aggregate.py: nth: parameters in order, with the source text of their defaults -/
def agg_nth_signature : List String := ["x", "index", "*", "drop_na=False"]

/-- the calls of dataiter/aggregate.py: nth in the order Python makes them along the source text -/
def agg_nth_call_order : List String := ["isinstance", "handle_na", "hasattr", "value.item"]

/-- dataiter/aggregate.py: median (sha256 of the function source: 7c9fed038185b5cf) -/
def agg_median (truth : Term → Bool) : Out :=
  if truth (Term.app "isinstance" [(Term.sym "x"), (Term.sym "str")]) then
    let aggregate' : Term := (Term.app "local-def" [(Term.app "def" [(Term.sym "aggregate"), (Term.app "params" [(Term.sym "data")]), (Term.app "block" [(Term.app "assign" [(Term.sym "f"), (Term.app "tuple" [(Term.sym "generic"), (Term.sym "generic_numba")])]), (Term.app "assign" [(Term.sym "f"), (Term.app "call" [(Term.app "select" [(Term.sym "f"), (Term.sym "data"), (Term.sym "x")]), (Term.sym "np.median")])]), (Term.app "store" [(Term.sym "aggregate.default"), (Term.sym "np.nan")]), (Term.app "return" [(Term.app "call" [(Term.sym "f"), (Term.app "getitem" [(Term.sym "data"), (Term.sym "x")]), (Term.app "._group_" [(Term.sym "data")]), (Term.app "=drop_na" [(Term.app "And" [(Term.sym "drop_na"), (Term.app ".any" [(Term.app ".is_na" [(Term.app "getitem" [(Term.sym "data"), (Term.sym "x")])])])])]), (Term.app "=default" [(Term.sym "np.nan")]), (Term.app "=nrequired" [(Term.int (1 : Int))])])])])])]);
    let attr0_2' : Term := (Term.sym "True");
    let eff0 : Term := (Term.app "setattr" [aggregate', (Term.sym "group_aware"), attr0_2']);
    Out.ret [eff0] aggregate'
  else
    let x' : Term := (Term.app "handle_na" [(Term.sym "x"), (Term.sym "drop_na")]);
    Out.ret [] (if truth (Term.app "GtE" [(Term.app "len" [x']), (Term.int (1 : Int))]) then (Term.app ".item" [(Term.app "np.median" [x'])]) else (Term.sym "np.nan"))

/-- the decorators of dataiter/aggregate.py: median, outermost first -/
def agg_median_decorators : List String := ["composite"]

/-- the signature of dataiter/aggregate.py: median: parameters in order, with the source text of their defaults -/
def agg_median_signature : List String := ["x", "*", "drop_na=True"]

/-- the calls of dataiter/aggregate.py: median in the order Python makes them along the source text -/
def agg_median_call_order : List String := ["isinstance", "handle_na", "len", "np.median", "np.median(x).item"]

/-- dataiter/aggregate.py: select (sha256 of the function source: 36dd4d596d309778) -/
def agg_select (truth : Term → Bool) : Out :=
  Out.ret [] (Term.app "getitem" [(Term.sym "functions"), (Term.app "use_numba" [(Term.app "getitem" [(Term.sym "data"), (Term.sym "name")])])])

/-- the decorators of dataiter/aggregate.py: select, outermost first -/
def agg_select_decorators : List String := []

/-- the signature of dataiter/aggregate.py: select: parameters in order, with the source text of their defaults -/
def agg_select_signature : List String := ["functions", "data", "name"]

/-- the calls of dataiter/aggregate.py: select in the order Python makes them along the source text -/
def agg_select_call_order : List String := ["use_numba"]

end DI.Gen

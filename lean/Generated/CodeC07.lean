/-
  Generated/CodeC07.lean — REGENERATED on every run by harness/py2lean.py from the current source of
  /repo (symbolic execution of small control-flow functions; see Model/PyCore.lean).  Do not edit.
-/
import Model.PyCore

set_option linter.unusedVariables false

namespace DI.Gen

open DI.Py

/-- dataiter/aggregate.py: yield_groups (sha256 of the function source: 296f16195c376f16) -/
def agg_yield_groups (truth : Term → Bool) : Out :=
  let i' : Int := (0 : Int);
  let n' : Term := (Term.app "len" [(Term.sym "x")]);
  let eff0 : Term := (Term.app "for" [(Term.sym "j"), (Term.app "range" [(Term.int (1 : Int)), (Term.app "Add" [n', (Term.int (1 : Int))])]), (Term.app "block" [(Term.app "if" [(Term.app "And" [(Term.app "Lt" [(Term.sym "j"), n']), (Term.app "Eq" [(Term.app "getitem" [(Term.sym "group"), (Term.sym "j")]), (Term.app "getitem" [(Term.sym "group"), (Term.sym "i")])])]), (Term.app "block" [(Term.sym "continue")]), (Term.app "block" [])]), (Term.app "assign" [(Term.sym "xij"), (Term.app "getitem" [(Term.sym "x"), (Term.app "slice" [(Term.sym "i"), (Term.sym "j")])])]), (Term.app "if" [(Term.sym "drop_na"), (Term.app "block" [(Term.app "assign" [(Term.sym "xij"), (Term.app "getitem" [(Term.sym "xij"), (Term.app "~" [(Term.app ".is_na" [(Term.sym "xij")])])])])]), (Term.app "block" [])]), (Term.app "yield" [(Term.sym "xij")]), (Term.app "assign" [(Term.sym "i"), (Term.sym "j")])]), (Term.app "init" [(Term.sym "i"), (Term.int i')])]);
  let xij' : Term := (Term.app "value-after-loop" [(Term.sym "xij"), eff0]);
  let i' : Term := (Term.app "value-after-loop" [(Term.sym "i"), eff0]);
  Out.fall [eff0]

/-- the decorators of dataiter/aggregate.py: yield_groups, outermost first -/
def agg_yield_groups_decorators : List String := []

/-- the signature of dataiter/aggregate.py: yield_groups: parameters in order, with the source text of their defaults -/
def agg_yield_groups_signature : List String := ["x", "group", "drop_na"]

/-- the calls of dataiter/aggregate.py: yield_groups in the order Python makes them along the source text -/
def agg_yield_groups_call_order : List String := ["len", "range", "xij.is_na"]

/-- dataiter/aggregate.py: handle_na (sha256 of the function source: b5a121b73e5dfc67) -/
def agg_handle_na (truth : Term → Bool) : Out :=
  Out.ret [] (if truth (Term.sym "drop_na") then (Term.app "getitem" [(Term.sym "x"), (Term.app "~" [(Term.app ".is_na" [(Term.sym "x")])])]) else (Term.sym "x"))

/-- the decorators of dataiter/aggregate.py: handle_na, outermost first -/
def agg_handle_na_decorators : List String := []

/-- the signature of dataiter/aggregate.py: handle_na: parameters in order, with the source text of their defaults -/
def agg_handle_na_signature : List String := ["x", "drop_na"]

/-- the calls of dataiter/aggregate.py: handle_na in the order Python makes them along the source text -/
def agg_handle_na_call_order : List String := ["x.is_na"]

/-- dataiter/aggregate.py: generic (sha256 of the function source: 4b30718266dcdd31) -/
def agg_generic (truth : Term → Bool) : Out :=
  let aggregate' : Term := (Term.app "local-def" [(Term.app "def" [(Term.app "decorator" [(Term.sym "deco.listify")]), (Term.sym "aggregate"), (Term.app "params" [(Term.sym "x"), (Term.sym "group"), (Term.sym "drop_na"), (Term.sym "default"), (Term.sym "nrequired")]), (Term.app "block" [(Term.app "for" [(Term.sym "xg"), (Term.app "yield_groups" [(Term.sym "x"), (Term.sym "group"), (Term.sym "drop_na")]), (Term.app "block" [(Term.app "yield" [(Term.app "ifexp" [(Term.app "GtE" [(Term.app "len" [(Term.sym "xg")]), (Term.sym "nrequired")]), (Term.app "function" [(Term.sym "xg"), (Term.app "=**" [(Term.sym "kwargs")])]), (Term.sym "default")])])])])])])]);
  Out.ret [] aggregate'

/-- the decorators of dataiter/aggregate.py: generic, outermost first -/
def agg_generic_decorators : List String := ["functools.lru_cache(256)"]

/-- the signature of dataiter/aggregate.py: generic: parameters in order, with the source text of their defaults -/
def agg_generic_signature : List String := ["function", "**kwargs"]

/-- the calls of dataiter/aggregate.py: generic in the order Python makes them along the source text -/
def agg_generic_call_order : List String := []

/-- dataiter/aggregate.py: nth_apply (sha256 of the function source: 89d9df6c78d5dcce) -/
def agg_nth_apply (truth : Term → Bool) : Out :=
  let eff0 : Term := (Term.app "for" [(Term.sym "xg"), (Term.app "yield_groups" [(Term.sym "x"), (Term.sym "group"), (Term.sym "drop_na")]), (Term.app "block" [(Term.app "try" [(Term.app "block" [(Term.app "yield" [(Term.app "getitem" [(Term.sym "xg"), (Term.sym "index")])])]), (Term.app "except" [(Term.sym "IndexError"), (Term.app "block" [(Term.app "yield" [(Term.sym "None")])])]), (Term.app "else" [(Term.app "block" [])]), (Term.app "finally" [(Term.app "block" [])])])])]);
  Out.fall [eff0]

/-- the decorators of dataiter/aggregate.py: nth_apply, outermost first -/
def agg_nth_apply_decorators : List String := ["deco.listify"]

/-- the signature of dataiter/aggregate.py: nth_apply: parameters in order, with the source text of their defaults -/
def agg_nth_apply_signature : List String := ["x", "group", "index", "drop_na"]

/-- the calls of dataiter/aggregate.py: nth_apply in the order Python makes them along the source text -/
def agg_nth_apply_call_order : List String := ["yield_groups"]

/-- dataiter/aggregate.py: mode_apply (sha256 of the function source: 28de28a60ad4a017) -/
def agg_mode_apply (truth : Term → Bool) : Out :=
  let eff0 : Term := (Term.app "for" [(Term.sym "xg"), (Term.app "yield_groups" [(Term.sym "x"), (Term.sym "group"), (Term.sym "drop_na")]), (Term.app "block" [(Term.app "yield" [(Term.app "ifexp" [(Term.app "GtE" [(Term.app "len" [(Term.sym "xg")]), (Term.int (1 : Int))]), (Term.app "mode1" [(Term.sym "xg")]), (Term.sym "None")])])])]);
  Out.fall [eff0]

/-- the decorators of dataiter/aggregate.py: mode_apply, outermost first -/
def agg_mode_apply_decorators : List String := ["deco.listify"]

/-- the signature of dataiter/aggregate.py: mode_apply: parameters in order, with the source text of their defaults -/
def agg_mode_apply_signature : List String := ["x", "group", "drop_na"]

/-- the calls of dataiter/aggregate.py: mode_apply in the order Python makes them along the source text -/
def agg_mode_apply_call_order : List String := ["yield_groups", "len", "mode1"]

/-- dataiter/aggregate.py: mode1 (sha256 of the function source: 1db6924678126c68) -/
def agg_mode1 (truth : Term → Bool) : Out :=
  let eff0 : Term := (Term.app "stmt" [(Term.app "try" [(Term.app "block" [(Term.app "return" [(Term.app "statistics.mode" [(Term.sym "x")])])]), (Term.app "except" [(Term.sym "statistics.StatisticsError"), (Term.app "block" [(Term.app "return" [(Term.app "getitem" [(Term.app "getitem" [(Term.app ".most_common" [(Term.app "Counter" [(Term.sym "x")]), (Term.int (1 : Int))]), (Term.int (0 : Int))]), (Term.int (0 : Int))])])])]), (Term.app "else" [(Term.app "block" [])]), (Term.app "finally" [(Term.app "block" [])])])]);
  Out.fall [eff0]

/-- the decorators of dataiter/aggregate.py: mode1, outermost first -/
def agg_mode1_decorators : List String := []

/-- the signature of dataiter/aggregate.py: mode1: parameters in order, with the source text of their defaults -/
def agg_mode1_signature : List String := ["x"]

/-- the calls of dataiter/aggregate.py: mode1 in the order Python makes them along the source text -/
def agg_mode1_call_order : List String := ["statistics.mode", "Counter", "Counter(x).most_common"]

/-- dataiter/aggregate.py: count_unique_apply (sha256 of the function source: 514fa83708f1df5c) -/
def agg_count_unique_apply (truth : Term → Bool) : Out :=
  let eff0 : Term := (Term.app "for" [(Term.sym "xg"), (Term.app "yield_groups" [(Term.sym "x"), (Term.sym "group"), (Term.sym "drop_na")]), (Term.app "block" [(Term.app "yield" [(Term.app "len" [(Term.app "set()" [(Term.sym "xg")])])])])]);
  Out.fall [eff0]

/-- the decorators of dataiter/aggregate.py: count_unique_apply, outermost first -/
def agg_count_unique_apply_decorators : List String := ["deco.listify"]

/-- the signature of dataiter/aggregate.py: count_unique_apply: parameters in order, with the source text of their defaults -/
def agg_count_unique_apply_signature : List String := ["x", "group", "drop_na"]

/-- the calls of dataiter/aggregate.py: count_unique_apply in the order Python makes them along the source text -/
def agg_count_unique_apply_call_order : List String := ["yield_groups", "set", "len"]

/-- dataiter/aggregate.py: quantile_apply (sha256 of the function source: 11777b98628a675b) -/
def agg_quantile_apply (truth : Term → Bool) : Out :=
  let eff0 : Term := (Term.app "for" [(Term.sym "xg"), (Term.app "yield_groups" [(Term.sym "x"), (Term.sym "group"), (Term.sym "drop_na")]), (Term.app "block" [(Term.app "yield" [(Term.app "ifexp" [(Term.app "GtE" [(Term.app "len" [(Term.sym "xg")]), (Term.int (1 : Int))]), (Term.app "np.quantile" [(Term.sym "xg"), (Term.sym "q")]), (Term.sym "np.nan")])])])]);
  Out.fall [eff0]

/-- the decorators of dataiter/aggregate.py: quantile_apply, outermost first -/
def agg_quantile_apply_decorators : List String := ["deco.listify"]

/-- the signature of dataiter/aggregate.py: quantile_apply: parameters in order, with the source text of their defaults -/
def agg_quantile_apply_signature : List String := ["x", "group", "q", "drop_na"]

/-- the calls of dataiter/aggregate.py: quantile_apply in the order Python makes them along the source text -/
def agg_quantile_apply_call_order : List String := ["yield_groups", "len", "np.quantile"]

/-- dataiter/aggregate.py: std (sha256 of the function source: d67175fb969f0bcd) -/
def agg_std (truth : Term → Bool) : Out :=
  if truth (Term.app "isinstance" [(Term.sym "x"), (Term.sym "str")]) then
    let aggregate' : Term := (Term.app "local-def" [(Term.app "def" [(Term.sym "aggregate"), (Term.app "params" [(Term.sym "data")]), (Term.app "block" [(Term.app "if" [(Term.app "Eq" [(Term.sym "ddof"), (Term.int (0 : Int))]), (Term.app "block" [(Term.app "assign" [(Term.sym "f"), (Term.app "tuple" [(Term.sym "generic"), (Term.sym "generic_numba")])]), (Term.app "assign" [(Term.sym "f"), (Term.app "call" [(Term.app "select" [(Term.sym "f"), (Term.sym "data"), (Term.sym "x")]), (Term.sym "np.std")])])]), (Term.app "block" [(Term.app "assign" [(Term.sym "f"), (Term.app "generic" [(Term.sym "np.std"), (Term.app "=ddof" [(Term.sym "ddof")])])])])]), (Term.app "store" [(Term.sym "aggregate.default"), (Term.sym "np.nan")]), (Term.app "return" [(Term.app "f" [(Term.app "getitem" [(Term.sym "data"), (Term.sym "x")]), (Term.app "._group_" [(Term.sym "data")]), (Term.app "=drop_na" [(Term.app "And" [(Term.sym "drop_na"), (Term.app ".any" [(Term.app ".is_na" [(Term.app "getitem" [(Term.sym "data"), (Term.sym "x")])])])])]), (Term.app "=default" [(Term.sym "np.nan")]), (Term.app "=nrequired" [(Term.int (2 : Int))])])])])])]);
    let attr0_2' : Term := (Term.sym "True");
    let eff0 : Term := (Term.app "setattr" [aggregate', (Term.sym "group_aware"), attr0_2']);
    Out.ret [eff0] aggregate'
  else
    let x' : Term := (Term.app "handle_na" [(Term.sym "x"), (Term.sym "drop_na")]);
    Out.ret [] (if truth (Term.app "GtE" [(Term.app "len" [x']), (Term.int (2 : Int))]) then (Term.app ".item" [(Term.app "np.std" [x', (Term.app "=ddof" [(Term.sym "ddof")])])]) else (Term.sym "np.nan"))

/-- the decorators of dataiter/aggregate.py: std, outermost first -/
def agg_std_decorators : List String := ["composite"]

/-- the signature of dataiter/aggregate.py: std: parameters in order, with the source text of their defaults -/
def agg_std_signature : List String := ["x", "*", "ddof=0", "drop_na=True"]

/-- the calls of dataiter/aggregate.py: std in the order Python makes them along the source text -/
def agg_std_call_order : List String := ["isinstance", "handle_na", "len", "np.std", "np.std(x, ddof=ddof).item"]

/-- dataiter/aggregate.py: var (sha256 of the function source: 7a07f0478eb2200e) -/
def agg_var (truth : Term → Bool) : Out :=
  if truth (Term.app "isinstance" [(Term.sym "x"), (Term.sym "str")]) then
    let aggregate' : Term := (Term.app "local-def" [(Term.app "def" [(Term.sym "aggregate"), (Term.app "params" [(Term.sym "data")]), (Term.app "block" [(Term.app "if" [(Term.app "Eq" [(Term.sym "ddof"), (Term.int (0 : Int))]), (Term.app "block" [(Term.app "assign" [(Term.sym "f"), (Term.app "tuple" [(Term.sym "generic"), (Term.sym "generic_numba")])]), (Term.app "assign" [(Term.sym "f"), (Term.app "call" [(Term.app "select" [(Term.sym "f"), (Term.sym "data"), (Term.sym "x")]), (Term.sym "np.var")])])]), (Term.app "block" [(Term.app "assign" [(Term.sym "f"), (Term.app "generic" [(Term.sym "np.var"), (Term.app "=ddof" [(Term.sym "ddof")])])])])]), (Term.app "store" [(Term.sym "aggregate.default"), (Term.sym "np.nan")]), (Term.app "return" [(Term.app "f" [(Term.app "getitem" [(Term.sym "data"), (Term.sym "x")]), (Term.app "._group_" [(Term.sym "data")]), (Term.app "=drop_na" [(Term.app "And" [(Term.sym "drop_na"), (Term.app ".any" [(Term.app ".is_na" [(Term.app "getitem" [(Term.sym "data"), (Term.sym "x")])])])])]), (Term.app "=default" [(Term.sym "np.nan")]), (Term.app "=nrequired" [(Term.int (2 : Int))])])])])])]);
    let attr0_2' : Term := (Term.sym "True");
    let eff0 : Term := (Term.app "setattr" [aggregate', (Term.sym "group_aware"), attr0_2']);
    Out.ret [eff0] aggregate'
  else
    let x' : Term := (Term.app "handle_na" [(Term.sym "x"), (Term.sym "drop_na")]);
    Out.ret [] (if truth (Term.app "GtE" [(Term.app "len" [x']), (Term.int (2 : Int))]) then (Term.app ".item" [(Term.app "np.var" [x', (Term.app "=ddof" [(Term.sym "ddof")])])]) else (Term.sym "np.nan"))

/-- the decorators of dataiter/aggregate.py: var, outermost first -/
def agg_var_decorators : List String := ["composite"]

/-- the signature of dataiter/aggregate.py: var: parameters in order, with the source text of their defaults -/
def agg_var_signature : List String := ["x", "*", "ddof=0", "drop_na=True"]

/-- the calls of dataiter/aggregate.py: var in the order Python makes them along the source text -/
def agg_var_call_order : List String := ["isinstance", "handle_na", "len", "np.var", "np.var(x, ddof=ddof).item"]

/-- dataiter/aggregate.py: sum (sha256 of the function source: ef871117103e284f) -/
def agg_sum (truth : Term → Bool) : Out :=
  if truth (Term.app "isinstance" [(Term.sym "x"), (Term.sym "str")]) then
    let aggregate' : Term := (Term.app "local-def" [(Term.app "def" [(Term.sym "aggregate"), (Term.app "params" [(Term.sym "data")]), (Term.app "block" [(Term.app "assign" [(Term.sym "f"), (Term.app "tuple" [(Term.sym "generic"), (Term.sym "generic_numba")])]), (Term.app "assign" [(Term.sym "f"), (Term.app "call" [(Term.app "select" [(Term.sym "f"), (Term.sym "data"), (Term.sym "x")]), (Term.sym "np.sum")])]), (Term.app "store" [(Term.sym "aggregate.default"), (Term.int (0 : Int))]), (Term.app "return" [(Term.app "call" [(Term.sym "f"), (Term.app "getitem" [(Term.sym "data"), (Term.sym "x")]), (Term.app "._group_" [(Term.sym "data")]), (Term.app "=drop_na" [(Term.app "And" [(Term.sym "drop_na"), (Term.app ".any" [(Term.app ".is_na" [(Term.app "getitem" [(Term.sym "data"), (Term.sym "x")])])])])]), (Term.app "=default" [(Term.app ".type" [(Term.app ".dtype" [(Term.app "getitem" [(Term.sym "data"), (Term.sym "x")])]), (Term.int (0 : Int))])]), (Term.app "=nrequired" [(Term.int (0 : Int))])])])])])]);
    let attr0_2' : Term := (Term.sym "True");
    let eff0 : Term := (Term.app "setattr" [aggregate', (Term.sym "group_aware"), attr0_2']);
    Out.ret [eff0] aggregate'
  else
    let x' : Term := (Term.app "handle_na" [(Term.sym "x"), (Term.sym "drop_na")]);
    Out.ret [] (Term.app ".item" [(Term.app "np.sum" [x'])])

/-- the decorators of dataiter/aggregate.py: sum, outermost first -/
def agg_sum_decorators : List String := ["composite"]

/-- the signature of dataiter/aggregate.py: sum: parameters in order, with the source text of their defaults -/
def agg_sum_signature : List String := ["x", "*", "drop_na=True"]

/-- the calls of dataiter/aggregate.py: sum in the order Python makes them along the source text -/
def agg_sum_call_order : List String := ["isinstance", "handle_na", "np.sum", "np.sum(x).item"]

/-- dataiter/aggregate.py: nth (sha256 of the function source: 65ddc9ad392f098c) -/
def agg_nth (truth : Term → Bool) : Out :=
  if truth (Term.app "isinstance" [(Term.sym "x"), (Term.sym "str")]) then
    let aggregate' : Term := (Term.app "local-def" [(Term.app "def" [(Term.sym "aggregate"), (Term.app "params" [(Term.sym "data")]), (Term.app "block" [(Term.app "assign" [(Term.sym "f"), (Term.app "tuple" [(Term.sym "nth_apply"), (Term.sym "nth_apply_numba")])]), (Term.app "assign" [(Term.sym "f"), (Term.app "select" [(Term.sym "f"), (Term.sym "data"), (Term.sym "x")])]), (Term.app "store" [(Term.sym "aggregate.default"), (Term.app ".na_value" [(Term.app "getitem" [(Term.sym "data"), (Term.sym "x")])])]), (Term.app "return" [(Term.app "call" [(Term.sym "f"), (Term.app "getitem" [(Term.sym "data"), (Term.sym "x")]), (Term.app "._group_" [(Term.sym "data")]), (Term.sym "index"), (Term.app "=drop_na" [(Term.app "And" [(Term.sym "drop_na"), (Term.app ".any" [(Term.app ".is_na" [(Term.app "getitem" [(Term.sym "data"), (Term.sym "x")])])])])])])])])])]);
    let attr0_2' : Term := (Term.sym "True");
    let eff0 : Term := (Term.app "setattr" [aggregate', (Term.sym "group_aware"), attr0_2']);
    Out.ret [eff0] aggregate'
  else
    let x' : Term := (Term.app "handle_na" [(Term.sym "x"), (Term.sym "drop_na")]);
    let eff0 : Term := (Term.app "stmt" [(Term.app "try" [(Term.app "block" [(Term.app "assign" [(Term.sym "value"), (Term.app "getitem" [x', (Term.sym "index")])])]), (Term.app "except" [(Term.sym "IndexError"), (Term.app "block" [(Term.app "return" [(Term.app ".na_value" [x'])])])]), (Term.app "else" [(Term.app "block" [])]), (Term.app "finally" [(Term.app "block" [])])])]);
    let value' : Term := (Term.app "value-after-loop" [(Term.sym "value"), eff0]);
    Out.ret [eff0] (if truth (Term.app "hasattr" [value', (Term.sym "'item'")]) then (Term.app ".item" [value']) else value')

/-- the decorators of dataiter/aggregate.py: nth, outermost first -/
def agg_nth_decorators : List String := ["composite"]

/-- the signature of dataiter/aggregate.py: nth: parameters in order, with the source text of their defaults -/
def agg_nth_signature : List String := ["x", "index", "*", "drop_na=False"]

/-- the calls of dataiter/aggregate.py: nth in the order Python makes them along the source text -/
def agg_nth_call_order : List String := ["isinstance", "handle_na", "hasattr", "value.item"]

/-- dataiter/aggregate.py: median (sha256 of the function source: 7c9fed038185b5cf) -/
def agg_median (truth : Term → Bool) : Out :=
  if truth (Term.app "isinstance" [(Term.sym "x"), (Term.sym "str")]) then
    let aggregate' : Term := (Term.app "local-def" [(Term.app "def" [(Term.sym "aggregate"), (Term.app "params" [(Term.sym "data")]), (Term.app "block" [(Term.app "assign" [(Term.sym "f"), (Term.app "tuple" [(Term.sym "generic"), (Term.sym "generic_numba")])]), (Term.app "assign" [(Term.sym "f"), (Term.app "call" [(Term.app "select" [(Term.sym "f"), (Term.sym "data"), (Term.sym "x")]), (Term.sym "np.median")])]), (Term.app "store" [(Term.sym "aggregate.default"), (Term.sym "np.nan")]), (Term.app "return" [(Term.app "call" [(Term.sym "f"), (Term.app "getitem" [(Term.sym "data"), (Term.sym "x")]), (Term.app "._group_" [(Term.sym "data")]), (Term.app "=drop_na" [(Term.app "And" [(Term.sym "drop_na"), (Term.app ".any" [(Term.app ".is_na" [(Term.app "getitem" [(Term.sym "data"), (Term.sym "x")])])])])]), (Term.app "=default" [(Term.sym "np.nan")]), (Term.app "=nrequired" [(Term.int (1 : Int))])])])])])]);
    let attr0_2' : Term := (Term.sym "True");
    let eff0 : Term := (Term.app "setattr" [aggregate', (Term.sym "group_aware"), attr0_2']);
    Out.ret [eff0] aggregate'
  else
    let x' : Term := (Term.app "handle_na" [(Term.sym "x"), (Term.sym "drop_na")]);
    Out.ret [] (if truth (Term.app "GtE" [(Term.app "len" [x']), (Term.int (1 : Int))]) then (Term.app ".item" [(Term.app "np.median" [x'])]) else (Term.sym "np.nan"))

/-- the decorators of dataiter/aggregate.py: median, outermost first -/
def agg_median_decorators : List String := ["composite"]

/-- the signature of dataiter/aggregate.py: median: parameters in order, with the source text of their defaults -/
def agg_median_signature : List String := ["x", "*", "drop_na=True"]

/-- the calls of dataiter/aggregate.py: median in the order Python makes them along the source text -/
def agg_median_call_order : List String := ["isinstance", "handle_na", "len", "np.median", "np.median(x).item"]

/-- dataiter/aggregate.py: select (sha256 of the function source: 36dd4d596d309778) -/
def agg_select (truth : Term → Bool) : Out :=
  Out.ret [] (Term.app "getitem" [(Term.sym "functions"), (Term.app "use_numba" [(Term.app "getitem" [(Term.sym "data"), (Term.sym "name")])])])

/-- the decorators of dataiter/aggregate.py: select, outermost first -/
def agg_select_decorators : List String := []

/-- the signature of dataiter/aggregate.py: select: parameters in order, with the source text of their defaults -/
def agg_select_signature : List String := ["functions", "data", "name"]

/-- the calls of dataiter/aggregate.py: select in the order Python makes them along the source text -/
def agg_select_call_order : List String := ["use_numba"]

/-- dataiter/aggregate.py: all (sha256 of the function source: db2bc152d69a30fa) -/
def agg_all (truth : Term → Bool) : Out :=
  if truth (Term.app "isinstance" [(Term.sym "x"), (Term.sym "str")]) then
    let aggregate' : Term := (Term.app "local-def" [(Term.app "def" [(Term.sym "aggregate"), (Term.app "params" [(Term.sym "data")]), (Term.app "block" [(Term.app "assign" [(Term.sym "f"), (Term.app "tuple" [(Term.sym "generic"), (Term.sym "generic_numba")])]), (Term.app "assign" [(Term.sym "f"), (Term.app "call" [(Term.app "select" [(Term.sym "f"), (Term.sym "data"), (Term.sym "x")]), (Term.sym "np.all")])]), (Term.app "store" [(Term.sym "aggregate.default"), (Term.sym "True")]), (Term.app "return" [(Term.app "call" [(Term.sym "f"), (Term.app ".as_boolean" [(Term.app "getitem" [(Term.sym "data"), (Term.sym "x")])]), (Term.app "._group_" [(Term.sym "data")]), (Term.app "=drop_na" [(Term.sym "False")]), (Term.app "=default" [(Term.sym "True")]), (Term.app "=nrequired" [(Term.int (0 : Int))])])])])])]);
    let attr0_2' : Term := (Term.sym "True");
    let eff0 : Term := (Term.app "setattr" [aggregate', (Term.sym "group_aware"), attr0_2']);
    Out.ret [eff0] aggregate'
  else
    let x' : Term := (Term.app ".as_boolean" [(Term.sym "x")]);
    Out.ret [] (Term.app ".item" [(Term.app "np.all" [x'])])

/-- the decorators of dataiter/aggregate.py: all, outermost first -/
def agg_all_decorators : List String := ["composite"]

/-- the signature of dataiter/aggregate.py: all: parameters in order, with the source text of their defaults -/
def agg_all_signature : List String := ["x"]

/-- the calls of dataiter/aggregate.py: all in the order Python makes them along the source text -/
def agg_all_call_order : List String := ["isinstance", "x.as_boolean", "np.all", "np.all(x).item"]

/-- dataiter/aggregate.py: any (sha256 of the function source: 5e02645b2c199a2f) -/
def agg_any (truth : Term → Bool) : Out :=
  if truth (Term.app "isinstance" [(Term.sym "x"), (Term.sym "str")]) then
    let aggregate' : Term := (Term.app "local-def" [(Term.app "def" [(Term.sym "aggregate"), (Term.app "params" [(Term.sym "data")]), (Term.app "block" [(Term.app "assign" [(Term.sym "f"), (Term.app "tuple" [(Term.sym "generic"), (Term.sym "generic_numba")])]), (Term.app "assign" [(Term.sym "f"), (Term.app "call" [(Term.app "select" [(Term.sym "f"), (Term.sym "data"), (Term.sym "x")]), (Term.sym "np.any")])]), (Term.app "store" [(Term.sym "aggregate.default"), (Term.sym "False")]), (Term.app "return" [(Term.app "call" [(Term.sym "f"), (Term.app ".as_boolean" [(Term.app "getitem" [(Term.sym "data"), (Term.sym "x")])]), (Term.app "._group_" [(Term.sym "data")]), (Term.app "=drop_na" [(Term.sym "False")]), (Term.app "=default" [(Term.sym "False")]), (Term.app "=nrequired" [(Term.int (0 : Int))])])])])])]);
    let attr0_2' : Term := (Term.sym "True");
    let eff0 : Term := (Term.app "setattr" [aggregate', (Term.sym "group_aware"), attr0_2']);
    Out.ret [eff0] aggregate'
  else
    let x' : Term := (Term.app ".as_boolean" [(Term.sym "x")]);
    Out.ret [] (Term.app ".item" [(Term.app "np.any" [x'])])

/-- the decorators of dataiter/aggregate.py: any, outermost first -/
def agg_any_decorators : List String := ["composite"]

/-- the signature of dataiter/aggregate.py: any: parameters in order, with the source text of their defaults -/
def agg_any_signature : List String := ["x"]

/-- the calls of dataiter/aggregate.py: any in the order Python makes them along the source text -/
def agg_any_call_order : List String := ["isinstance", "x.as_boolean", "np.any", "np.any(x).item"]

/-- dataiter/aggregate.py: count (sha256 of the function source: 1e86de4a6d8125ed) -/
def agg_count (truth : Term → Bool) : Out :=
  if truth (Term.app "isinstance" [(Term.sym "x"), (Term.sym "str")]) then
    let aggregate' : Term := (Term.app "local-def" [(Term.app "def" [(Term.sym "aggregate"), (Term.app "params" [(Term.sym "data")]), (Term.app "block" [(Term.app "assign" [(Term.sym "f"), (Term.app "tuple" [(Term.sym "generic"), (Term.sym "generic_numba")])]), (Term.app "assign" [(Term.sym "f"), (Term.app "call" [(Term.app "select" [(Term.sym "f"), (Term.sym "data"), (Term.app "Or" [(Term.sym "x"), (Term.sym "'_group_'")])]), (Term.sym "len")])]), (Term.app "store" [(Term.sym "aggregate.default"), (Term.int (0 : Int))]), (Term.app "return" [(Term.app "call" [(Term.sym "f"), (Term.app "getitem" [(Term.sym "data"), (Term.app "Or" [(Term.sym "x"), (Term.sym "'_group_'")])]), (Term.app "._group_" [(Term.sym "data")]), (Term.app "=drop_na" [(Term.app "And" [(Term.sym "drop_na"), (Term.sym "x"), (Term.app ".any" [(Term.app ".is_na" [(Term.app "getitem" [(Term.sym "data"), (Term.sym "x")])])])])]), (Term.app "=default" [(Term.int (0 : Int))]), (Term.app "=nrequired" [(Term.int (0 : Int))])])])])])]);
    let attr0_2' : Term := (Term.sym "True");
    let eff0 : Term := (Term.app "setattr" [aggregate', (Term.sym "group_aware"), attr0_2']);
    Out.ret [eff0] aggregate'
  else
    let x' : Term := (Term.app "handle_na" [(Term.sym "x"), (Term.sym "drop_na")]);
    Out.ret [] (Term.app "len" [x'])

/-- the decorators of dataiter/aggregate.py: count, outermost first -/
def agg_count_decorators : List String := []

/-- the signature of dataiter/aggregate.py: count: parameters in order, with the source text of their defaults -/
def agg_count_signature : List String := ["x=''", "*", "drop_na=False"]

/-- the calls of dataiter/aggregate.py: count in the order Python makes them along the source text -/
def agg_count_call_order : List String := ["isinstance", "handle_na", "len"]

/-- dataiter/aggregate.py: count_unique (sha256 of the function source: 405235eeb40836b8) -/
def agg_count_unique (truth : Term → Bool) : Out :=
  if truth (Term.app "isinstance" [(Term.sym "x"), (Term.sym "str")]) then
    let aggregate' : Term := (Term.app "local-def" [(Term.app "def" [(Term.sym "aggregate"), (Term.app "params" [(Term.sym "data")]), (Term.app "block" [(Term.app "assign" [(Term.sym "f"), (Term.app "tuple" [(Term.sym "count_unique_apply"), (Term.sym "count_unique_apply_numba")])]), (Term.app "assign" [(Term.sym "f"), (Term.app "select" [(Term.sym "f"), (Term.sym "data"), (Term.sym "x")])]), (Term.app "store" [(Term.sym "aggregate.default"), (Term.int (0 : Int))]), (Term.app "return" [(Term.app "call" [(Term.sym "f"), (Term.app "getitem" [(Term.sym "data"), (Term.sym "x")]), (Term.app "._group_" [(Term.sym "data")]), (Term.app "=drop_na" [(Term.app "And" [(Term.sym "drop_na"), (Term.app ".any" [(Term.app ".is_na" [(Term.app "getitem" [(Term.sym "data"), (Term.sym "x")])])])])])])])])])]);
    let attr0_2' : Term := (Term.sym "True");
    let eff0 : Term := (Term.app "setattr" [aggregate', (Term.sym "group_aware"), attr0_2']);
    Out.ret [eff0] aggregate'
  else
    let x' : Term := (Term.app "handle_na" [(Term.sym "x"), (Term.sym "drop_na")]);
    Out.ret [] (Term.app "len" [(Term.app "set()" [x'])])

/-- the decorators of dataiter/aggregate.py: count_unique, outermost first -/
def agg_count_unique_decorators : List String := ["composite"]

/-- the signature of dataiter/aggregate.py: count_unique: parameters in order, with the source text of their defaults -/
def agg_count_unique_signature : List String := ["x", "*", "drop_na=False"]

/-- the calls of dataiter/aggregate.py: count_unique in the order Python makes them along the source text -/
def agg_count_unique_call_order : List String := ["isinstance", "handle_na", "set", "len"]

/-- dataiter/aggregate.py: first (sha256 of the function source: 691f41be518553c7) -/
def agg_first (truth : Term → Bool) : Out :=
  Out.ret [] (Term.app "nth" [(Term.sym "x"), (Term.int (0 : Int)), (Term.app "=drop_na" [(Term.sym "drop_na")])])

/-- the decorators of dataiter/aggregate.py: first, outermost first -/
def agg_first_decorators : List String := []

/-- the signature of dataiter/aggregate.py: first: parameters in order, with the source text of their defaults -/
def agg_first_signature : List String := ["x", "*", "drop_na=False"]

/-- the calls of dataiter/aggregate.py: first in the order Python makes them along the source text -/
def agg_first_call_order : List String := ["nth"]

/-- dataiter/aggregate.py: last (sha256 of the function source: 0ea13b936f09f8a3) -/
def agg_last (truth : Term → Bool) : Out :=
  Out.ret [] (Term.app "nth" [(Term.sym "x"), (Term.int (-(1 : Int))), (Term.app "=drop_na" [(Term.sym "drop_na")])])

/-- the decorators of dataiter/aggregate.py: last, outermost first -/
def agg_last_decorators : List String := ["composite"]

/-- the signature of dataiter/aggregate.py: last: parameters in order, with the source text of their defaults -/
def agg_last_signature : List String := ["x", "*", "drop_na=False"]

/-- the calls of dataiter/aggregate.py: last in the order Python makes them along the source text -/
def agg_last_call_order : List String := ["nth"]

/-- dataiter/aggregate.py: max (sha256 of the function source: 1f341a97ce7731bc) -/
def agg_max (truth : Term → Bool) : Out :=
  if truth (Term.app "isinstance" [(Term.sym "x"), (Term.sym "str")]) then
    let aggregate' : Term := (Term.app "local-def" [(Term.app "def" [(Term.sym "aggregate"), (Term.app "params" [(Term.sym "data")]), (Term.app "block" [(Term.app "assign" [(Term.sym "f"), (Term.app "tuple" [(Term.sym "generic"), (Term.sym "generic_numba")])]), (Term.app "assign" [(Term.sym "f"), (Term.app "call" [(Term.app "select" [(Term.sym "f"), (Term.sym "data"), (Term.sym "x")]), (Term.sym "np.amax")])]), (Term.app "store" [(Term.sym "aggregate.default"), (Term.app ".na_value" [(Term.app "getitem" [(Term.sym "data"), (Term.sym "x")])])]), (Term.app "return" [(Term.app "call" [(Term.sym "f"), (Term.app "getitem" [(Term.sym "data"), (Term.sym "x")]), (Term.app "._group_" [(Term.sym "data")]), (Term.app "=drop_na" [(Term.app "And" [(Term.sym "drop_na"), (Term.app ".any" [(Term.app ".is_na" [(Term.app "getitem" [(Term.sym "data"), (Term.sym "x")])])])])]), (Term.app "=default" [(Term.sym "None")]), (Term.app "=nrequired" [(Term.int (1 : Int))])])])])])]);
    let attr0_2' : Term := (Term.sym "True");
    let eff0 : Term := (Term.app "setattr" [aggregate', (Term.sym "group_aware"), attr0_2']);
    Out.ret [eff0] aggregate'
  else
    let x' : Term := (Term.app "handle_na" [(Term.sym "x"), (Term.sym "drop_na")]);
    Out.ret [] (if truth (Term.app "GtE" [(Term.app "len" [x']), (Term.int (1 : Int))]) then (Term.app ".item" [(Term.app "np.amax" [x'])]) else (Term.app ".na_value" [x']))

/-- the decorators of dataiter/aggregate.py: max, outermost first -/
def agg_max_decorators : List String := ["composite"]

/-- the signature of dataiter/aggregate.py: max: parameters in order, with the source text of their defaults -/
def agg_max_signature : List String := ["x", "*", "drop_na=True"]

/-- the calls of dataiter/aggregate.py: max in the order Python makes them along the source text -/
def agg_max_call_order : List String := ["isinstance", "handle_na", "len", "np.amax", "np.amax(x).item"]

/-- dataiter/aggregate.py: mean (sha256 of the function source: aa6c49e371521213) -/
def agg_mean (truth : Term → Bool) : Out :=
  if truth (Term.app "isinstance" [(Term.sym "x"), (Term.sym "str")]) then
    let aggregate' : Term := (Term.app "local-def" [(Term.app "def" [(Term.sym "aggregate"), (Term.app "params" [(Term.sym "data")]), (Term.app "block" [(Term.app "assign" [(Term.sym "f"), (Term.app "tuple" [(Term.sym "generic"), (Term.sym "generic_numba")])]), (Term.app "assign" [(Term.sym "f"), (Term.app "call" [(Term.app "select" [(Term.sym "f"), (Term.sym "data"), (Term.sym "x")]), (Term.sym "np.mean")])]), (Term.app "store" [(Term.sym "aggregate.default"), (Term.sym "np.nan")]), (Term.app "return" [(Term.app "call" [(Term.sym "f"), (Term.app "getitem" [(Term.sym "data"), (Term.sym "x")]), (Term.app "._group_" [(Term.sym "data")]), (Term.app "=drop_na" [(Term.app "And" [(Term.sym "drop_na"), (Term.app ".any" [(Term.app ".is_na" [(Term.app "getitem" [(Term.sym "data"), (Term.sym "x")])])])])]), (Term.app "=default" [(Term.sym "np.nan")]), (Term.app "=nrequired" [(Term.int (1 : Int))])])])])])]);
    let attr0_2' : Term := (Term.sym "True");
    let eff0 : Term := (Term.app "setattr" [aggregate', (Term.sym "group_aware"), attr0_2']);
    Out.ret [eff0] aggregate'
  else
    let x' : Term := (Term.app "handle_na" [(Term.sym "x"), (Term.sym "drop_na")]);
    Out.ret [] (if truth (Term.app "GtE" [(Term.app "len" [x']), (Term.int (1 : Int))]) then (Term.app ".item" [(Term.app "np.mean" [x'])]) else (Term.sym "np.nan"))

/-- the decorators of dataiter/aggregate.py: mean, outermost first -/
def agg_mean_decorators : List String := ["composite"]

/-- the signature of dataiter/aggregate.py: mean: parameters in order, with the source text of their defaults -/
def agg_mean_signature : List String := ["x", "*", "drop_na=True"]

/-- the calls of dataiter/aggregate.py: mean in the order Python makes them along the source text -/
def agg_mean_call_order : List String := ["isinstance", "handle_na", "len", "np.mean", "np.mean(x).item"]

/-- dataiter/aggregate.py: min (sha256 of the function source: a5a6b96a7a1c9f94) -/
def agg_min (truth : Term → Bool) : Out :=
  if truth (Term.app "isinstance" [(Term.sym "x"), (Term.sym "str")]) then
    let aggregate' : Term := (Term.app "local-def" [(Term.app "def" [(Term.sym "aggregate"), (Term.app "params" [(Term.sym "data")]), (Term.app "block" [(Term.app "assign" [(Term.sym "f"), (Term.app "tuple" [(Term.sym "generic"), (Term.sym "generic_numba")])]), (Term.app "assign" [(Term.sym "f"), (Term.app "call" [(Term.app "select" [(Term.sym "f"), (Term.sym "data"), (Term.sym "x")]), (Term.sym "np.amin")])]), (Term.app "store" [(Term.sym "aggregate.default"), (Term.app ".na_value" [(Term.app "getitem" [(Term.sym "data"), (Term.sym "x")])])]), (Term.app "return" [(Term.app "call" [(Term.sym "f"), (Term.app "getitem" [(Term.sym "data"), (Term.sym "x")]), (Term.app "._group_" [(Term.sym "data")]), (Term.app "=drop_na" [(Term.app "And" [(Term.sym "drop_na"), (Term.app ".any" [(Term.app ".is_na" [(Term.app "getitem" [(Term.sym "data"), (Term.sym "x")])])])])]), (Term.app "=default" [(Term.sym "None")]), (Term.app "=nrequired" [(Term.int (1 : Int))])])])])])]);
    let attr0_2' : Term := (Term.sym "True");
    let eff0 : Term := (Term.app "setattr" [aggregate', (Term.sym "group_aware"), attr0_2']);
    Out.ret [eff0] aggregate'
  else
    let x' : Term := (Term.app "handle_na" [(Term.sym "x"), (Term.sym "drop_na")]);
    Out.ret [] (if truth (Term.app "GtE" [(Term.app "len" [x']), (Term.int (1 : Int))]) then (Term.app ".item" [(Term.app "np.amin" [x'])]) else (Term.app ".na_value" [x']))

/-- the decorators of dataiter/aggregate.py: min, outermost first -/
def agg_min_decorators : List String := ["composite"]

/-- the signature of dataiter/aggregate.py: min: parameters in order, with the source text of their defaults -/
def agg_min_signature : List String := ["x", "*", "drop_na=True"]

/-- the calls of dataiter/aggregate.py: min in the order Python makes them along the source text -/
def agg_min_call_order : List String := ["isinstance", "handle_na", "len", "np.amin", "np.amin(x).item"]

/-- dataiter/aggregate.py: mode (sha256 of the function source: c76d8549b37e14f1) -/
def agg_mode (truth : Term → Bool) : Out :=
  if truth (Term.app "isinstance" [(Term.sym "x"), (Term.sym "str")]) then
    let aggregate' : Term := (Term.app "local-def" [(Term.app "def" [(Term.sym "aggregate"), (Term.app "params" [(Term.sym "data")]), (Term.app "block" [(Term.app "assign" [(Term.sym "f"), (Term.app "tuple" [(Term.sym "mode_apply"), (Term.sym "mode_apply_numba")])]), (Term.app "assign" [(Term.sym "f"), (Term.app "select" [(Term.sym "f"), (Term.sym "data"), (Term.sym "x")])]), (Term.app "store" [(Term.sym "aggregate.default"), (Term.app ".na_value" [(Term.app "getitem" [(Term.sym "data"), (Term.sym "x")])])]), (Term.app "return" [(Term.app "call" [(Term.sym "f"), (Term.app "getitem" [(Term.sym "data"), (Term.sym "x")]), (Term.app "._group_" [(Term.sym "data")]), (Term.app "=drop_na" [(Term.app "And" [(Term.sym "drop_na"), (Term.app ".any" [(Term.app ".is_na" [(Term.app "getitem" [(Term.sym "data"), (Term.sym "x")])])])])])])])])])]);
    let attr0_2' : Term := (Term.sym "True");
    let eff0 : Term := (Term.app "setattr" [aggregate', (Term.sym "group_aware"), attr0_2']);
    Out.ret [eff0] aggregate'
  else
    let x' : Term := (Term.app "handle_na" [(Term.sym "x"), (Term.sym "drop_na")]);
    Out.ret [] (if truth (Term.app "GtE" [(Term.app "len" [x']), (Term.int (1 : Int))]) then (Term.app "mode1" [x']) else (Term.app ".na_value" [x']))

/-- the decorators of dataiter/aggregate.py: mode, outermost first -/
def agg_mode_decorators : List String := ["composite"]

/-- the signature of dataiter/aggregate.py: mode: parameters in order, with the source text of their defaults -/
def agg_mode_signature : List String := ["x", "*", "drop_na=True"]

/-- the calls of dataiter/aggregate.py: mode in the order Python makes them along the source text -/
def agg_mode_call_order : List String := ["isinstance", "handle_na", "len", "mode1"]

/-- dataiter/aggregate.py: quantile (sha256 of the function source: 4aa649552cdbf8ad) -/
def agg_quantile (truth : Term → Bool) : Out :=
  if truth (Term.app "isinstance" [(Term.sym "x"), (Term.sym "str")]) then
    let aggregate' : Term := (Term.app "local-def" [(Term.app "def" [(Term.sym "aggregate"), (Term.app "params" [(Term.sym "data")]), (Term.app "block" [(Term.app "assign" [(Term.sym "f"), (Term.app "tuple" [(Term.sym "quantile_apply"), (Term.sym "quantile_apply_numba")])]), (Term.app "assign" [(Term.sym "f"), (Term.app "select" [(Term.sym "f"), (Term.sym "data"), (Term.sym "x")])]), (Term.app "store" [(Term.sym "aggregate.default"), (Term.sym "np.nan")]), (Term.app "return" [(Term.app "call" [(Term.sym "f"), (Term.app ".as_float" [(Term.app "getitem" [(Term.sym "data"), (Term.sym "x")])]), (Term.app "._group_" [(Term.sym "data")]), (Term.sym "q"), (Term.app "=drop_na" [(Term.app "And" [(Term.sym "drop_na"), (Term.app ".any" [(Term.app ".is_na" [(Term.app "getitem" [(Term.sym "data"), (Term.sym "x")])])])])])])])])])]);
    let attr0_2' : Term := (Term.sym "True");
    let eff0 : Term := (Term.app "setattr" [aggregate', (Term.sym "group_aware"), attr0_2']);
    Out.ret [eff0] aggregate'
  else
    let x' : Term := (Term.app "handle_na" [(Term.sym "x"), (Term.sym "drop_na")]);
    Out.ret [] (if truth (Term.app "GtE" [(Term.app "len" [x']), (Term.int (1 : Int))]) then (Term.app ".item" [(Term.app "np.quantile" [(Term.app ".as_float" [x']), (Term.sym "q")])]) else (Term.sym "np.nan"))

/-- the decorators of dataiter/aggregate.py: quantile, outermost first -/
def agg_quantile_decorators : List String := ["composite"]

/-- the signature of dataiter/aggregate.py: quantile: parameters in order, with the source text of their defaults -/
def agg_quantile_signature : List String := ["x", "q", "*", "drop_na=True"]

/-- the calls of dataiter/aggregate.py: quantile in the order Python makes them along the source text -/
def agg_quantile_call_order : List String := ["isinstance", "handle_na", "len", "x.as_float", "np.quantile", "np.quantile(x.as_float(), q).item"]

/-- dataiter/aggregate.py: composite (sha256 of the function source: a1949f100a202485) -/
def agg_composite (truth : Term → Bool) : Out :=
  let wrapper' : Term := (Term.app "local-def" [(Term.app "def" [(Term.app "decorator" [(Term.app "functools.wraps" [(Term.sym "function")])]), (Term.sym "wrapper"), (Term.app "params" [(Term.sym "x"), (Term.sym "*args"), (Term.sym "**kwargs")]), (Term.app "block" [(Term.app "if" [(Term.app "not" [(Term.app "isinstance" [(Term.sym "x"), (Term.app "tuple" [(Term.sym "Vector"), (Term.sym "str")])])]), (Term.app "block" [(Term.app "raise" [(Term.sym "TypeError")])]), (Term.app "block" [])]), (Term.app "return" [(Term.app "function" [(Term.sym "x"), (Term.app "*" [(Term.sym "args")]), (Term.app "=**" [(Term.sym "kwargs")])])])])])]);
  Out.ret [] wrapper'

/-- the decorators of dataiter/aggregate.py: composite, outermost first -/
def agg_composite_decorators : List String := []

/-- the signature of dataiter/aggregate.py: composite: parameters in order, with the source text of their defaults -/
def agg_composite_signature : List String := ["function"]

/-- the calls of dataiter/aggregate.py: composite in the order Python makes them along the source text -/
def agg_composite_call_order : List String := []

/-- dataiter/aggregate.py: composite.wrapper (sha256 of the function source: ff893fe3423242cb) -/
def agg_composite_wrapper (truth : Term → Bool) : Out :=
  if (!truth (Term.app "isinstance" [(Term.sym "x"), (Term.app "tuple" [(Term.sym "Vector"), (Term.sym "str")])])) then
    Out.raise [] "TypeError"
  else
    Out.ret [] (Term.app "function" [(Term.sym "x"), (Term.app "*" [(Term.sym "args")]), (Term.app "=**" [(Term.sym "kwargs")])])

/-- the decorators of dataiter/aggregate.py: composite.wrapper, outermost first -/
def agg_composite_wrapper_decorators : List String := ["functools.wraps(function)"]

/-- the signature of dataiter/aggregate.py: composite.wrapper: parameters in order, with the source text of their defaults -/
def agg_composite_wrapper_signature : List String := ["x", "*args", "**kwargs"]

/-- the calls of dataiter/aggregate.py: composite.wrapper in the order Python makes them along the source text -/
def agg_composite_wrapper_call_order : List String := ["isinstance", "TypeError", "function"]

/-- dataiter/aggregate.py: generic.aggregate (sha256 of the function source: 34f0b2f8d54ef6dc) -/
def agg_generic_aggregate (truth : Term → Bool) : Out :=
  let eff0 : Term := (Term.app "for" [(Term.sym "xg"), (Term.app "yield_groups" [(Term.sym "x"), (Term.sym "group"), (Term.sym "drop_na")]), (Term.app "block" [(Term.app "yield" [(Term.app "ifexp" [(Term.app "GtE" [(Term.app "len" [(Term.sym "xg")]), (Term.sym "nrequired")]), (Term.app "function" [(Term.sym "xg"), (Term.app "=**" [(Term.sym "kwargs")])]), (Term.sym "default")])])])]);
  Out.fall [eff0]

/-- the decorators of dataiter/aggregate.py: generic.aggregate, outermost first -/
def agg_generic_aggregate_decorators : List String := ["deco.listify"]

/-- the signature of dataiter/aggregate.py: generic.aggregate: parameters in order, with the source text of their defaults -/
def agg_generic_aggregate_signature : List String := ["x", "group", "drop_na", "default", "nrequired"]

/-- the calls of dataiter/aggregate.py: generic.aggregate in the order Python makes them along the source text -/
def agg_generic_aggregate_call_order : List String := ["yield_groups", "len", "function"]

end DI.Gen

/-
  Generated/CodeC09.lean — REGENERATED on every run by harness/py2lean.py from the current source of
  /repo (symbolic execution of small control-flow functions; see Model/PyCore.lean).  Do not edit.
-/
import Model.PyCore

set_option linter.unusedVariables false

namespace DI.Gen

open DI.Py

/-- dataiter/data_frame.py: DataFrame.select (sha256 of the function source: 7febd3c1481ad560) -/
def DataFrame_select (truth : Term → Bool) : Out :=
  let eff0 : Term := (Term.app "for" [(Term.sym "colname"), (Term.sym "colnames"), (Term.app "block" [(Term.app "yield" [(Term.app "tuple" [(Term.sym "colname"), (Term.app ".copy" [(Term.app "getitem" [(Term.sym "self"), (Term.sym "colname")])])])])])]);
  Out.fall [eff0]

/-- the decorators of dataiter/data_frame.py: DataFrame.select, outermost first -/
def DataFrame_select_decorators : List String := ["deco.new_from_generator"]

/-- the signature of dataiter/data_frame.py: DataFrame.select: parameters in order, with the source text of their defaults -/
def DataFrame_select_signature : List String := ["self", "*colnames"]

/-- the calls of dataiter/data_frame.py: DataFrame.select in the order Python makes them along the source text -/
def DataFrame_select_call_order : List String := ["self[colname].copy"]

/-- dataiter/data_frame.py: DataFrame.unselect (sha256 of the function source: 4800fa2fa5405077) -/
def DataFrame_unselect (truth : Term → Bool) : Out :=
  let eff0 : Term := (Term.app "for" [(Term.sym "colname"), (Term.app ".colnames" [(Term.sym "self")]), (Term.app "block" [(Term.app "if" [(Term.app "NotIn" [(Term.sym "colname"), (Term.sym "colnames")]), (Term.app "block" [(Term.app "yield" [(Term.app "tuple" [(Term.sym "colname"), (Term.app ".copy" [(Term.app "getitem" [(Term.sym "self"), (Term.sym "colname")])])])])]), (Term.app "block" [])])])]);
  Out.fall [eff0]

/-- the decorators of dataiter/data_frame.py: DataFrame.unselect, outermost first -/
def DataFrame_unselect_decorators : List String := ["deco.new_from_generator"]

/-- the signature of dataiter/data_frame.py: DataFrame.unselect: parameters in order, with the source text of their defaults -/
def DataFrame_unselect_signature : List String := ["self", "*colnames"]

/-- the calls of dataiter/data_frame.py: DataFrame.unselect in the order Python makes them along the source text -/
def DataFrame_unselect_call_order : List String := ["self[colname].copy"]

/-- dataiter/data_frame.py: DataFrame.rename (sha256 of the function source: 1fc6f52d1123139b) -/
def DataFrame_rename (truth : Term → Bool) : Out :=
  let from_to_pairs' : Term := (Term.app "DictComp" [(Term.app "pair" [(Term.sym "v"), (Term.sym "k")]), (Term.app "in" [(Term.app "tuple" [(Term.sym "k"), (Term.sym "v")]), (Term.app ".items" [(Term.sym "to_from_pairs")]), (Term.app "if" [])])]);
  let eff0 : Term := (Term.app "for" [(Term.sym "fm"), (Term.app ".colnames" [(Term.sym "self")]), (Term.app "block" [(Term.app "assign" [(Term.sym "to"), (Term.app ".get" [from_to_pairs', (Term.sym "fm"), (Term.sym "fm")])]), (Term.app "yield" [(Term.app "tuple" [(Term.sym "to"), (Term.app ".copy" [(Term.app "getitem" [(Term.sym "self"), (Term.sym "fm")])])])])])]);
  let to' : Term := (Term.app "value-after-loop" [(Term.sym "to"), eff0]);
  Out.fall [eff0]

/-- the decorators of dataiter/data_frame.py: DataFrame.rename, outermost first -/
def DataFrame_rename_decorators : List String := ["deco.new_from_generator"]

/-- the signature of dataiter/data_frame.py: DataFrame.rename: parameters in order, with the source text of their defaults -/
def DataFrame_rename_signature : List String := ["self", "**to_from_pairs"]

/-- the calls of dataiter/data_frame.py: DataFrame.rename in the order Python makes them along the source text -/
def DataFrame_rename_call_order : List String := ["to_from_pairs.items", "from_to_pairs.get", "self[fm].copy"]

/-- dataiter/data_frame.py: DataFrame.cbind (sha256 of the function source: 575c3a32e09cfb6e) -/
def DataFrame_cbind (truth : Term → Bool) : Out :=
  let found_colnames' : Term := (Term.app "set()" []);
  let data_frames' : Term := (Term.app "Add" [(Term.app "list" [(Term.sym "self")]), (Term.app "list()" [(Term.sym "others")])]);
  let eff0 : Term := (Term.app "for" [(Term.app "tuple" [(Term.sym "i"), (Term.sym "data")]), (Term.app "enumerate" [data_frames']), (Term.app "block" [(Term.app "for" [(Term.app "tuple" [(Term.sym "colname"), (Term.sym "column")]), (Term.app ".items" [(Term.sym "data")]), (Term.app "block" [(Term.app "if" [(Term.app "In" [(Term.sym "colname"), found_colnames']), (Term.app "block" [(Term.sym "continue")]), (Term.app "block" [])]), (Term.app ".add" [found_colnames', (Term.sym "colname")]), (Term.app "assign" [(Term.sym "column"), (Term.app "._reconcile_column" [(Term.sym "self"), (Term.sym "column")])]), (Term.app "yield" [(Term.app "tuple" [(Term.sym "colname"), (Term.app ".copy" [(Term.sym "column")])])])])])])]);
  let column' : Term := (Term.app "value-after-loop" [(Term.sym "column"), eff0]);
  Out.fall [eff0]

/-- the decorators of dataiter/data_frame.py: DataFrame.cbind, outermost first -/
def DataFrame_cbind_decorators : List String := ["deco.new_from_generator"]

/-- the signature of dataiter/data_frame.py: DataFrame.cbind: parameters in order, with the source text of their defaults -/
def DataFrame_cbind_signature : List String := ["self", "*others"]

/-- the calls of dataiter/data_frame.py: DataFrame.cbind in the order Python makes them along the source text -/
def DataFrame_cbind_call_order : List String := ["set", "list", "enumerate", "data.items", "found_colnames.add", "self._reconcile_column", "column.copy"]

/-- dataiter/data_frame.py: DataFrame.update (sha256 of the function source: b10bab4f7e928005) -/
def DataFrame_update (truth : Term → Bool) : Out :=
  let eff0 : Term := (Term.app "for" [(Term.app "tuple" [(Term.sym "colname"), (Term.sym "column")]), (Term.app ".items" [(Term.sym "self")]), (Term.app "block" [(Term.app "if" [(Term.app "In" [(Term.sym "colname"), (Term.sym "other")]), (Term.app "block" [(Term.sym "continue")]), (Term.app "block" [])]), (Term.app "yield" [(Term.app "tuple" [(Term.sym "colname"), (Term.app ".copy" [(Term.sym "column")])])])])]);
  let eff1 : Term := (Term.app "for" [(Term.app "tuple" [(Term.sym "colname"), (Term.sym "column")]), (Term.app ".items" [(Term.sym "other")]), (Term.app "block" [(Term.app "assign" [(Term.sym "column"), (Term.app "._reconcile_column" [(Term.sym "self"), (Term.sym "column")])]), (Term.app "yield" [(Term.app "tuple" [(Term.sym "colname"), (Term.app ".copy" [(Term.sym "column")])])])])]);
  let column' : Term := (Term.app "value-after-loop" [(Term.sym "column"), eff1]);
  Out.fall [eff0, eff1]

/-- the decorators of dataiter/data_frame.py: DataFrame.update, outermost first -/
def DataFrame_update_decorators : List String := ["deco.new_from_generator"]

/-- the signature of dataiter/data_frame.py: DataFrame.update: parameters in order, with the source text of their defaults -/
def DataFrame_update_signature : List String := ["self", "other"]

/-- the calls of dataiter/data_frame.py: DataFrame.update in the order Python makes them along the source text -/
def DataFrame_update_call_order : List String := ["self.items", "column.copy", "other.items", "self._reconcile_column", "column.copy"]

/-- dataiter/data_frame.py: DataFrame.rbind (sha256 of the function source: ad5b4741166592ca) -/
def DataFrame_rbind (truth : Term → Bool) : Out :=
  let data_frames' : Term := (Term.app "Add" [(Term.app "list" [(Term.sym "self")]), (Term.app "list()" [(Term.sym "others")])]);
  let colnames' : Term := (Term.app "util.unique_keys" [(Term.app "itertools.chain" [(Term.app "*" [data_frames'])])]);
  let get_part' : Term := (Term.app "local-def" [(Term.app "def" [(Term.sym "get_part"), (Term.app "params" [(Term.sym "data"), (Term.sym "colname")]), (Term.app "block" [(Term.app "if" [(Term.app "In" [(Term.sym "colname"), (Term.sym "data")]), (Term.app "block" [(Term.app "return" [(Term.app "getitem" [(Term.sym "data"), (Term.sym "colname")])])]), (Term.app "block" [])]), (Term.app "for" [(Term.sym "ref"), data_frames', (Term.app "block" [(Term.app "if" [(Term.app "NotIn" [(Term.sym "colname"), (Term.sym "ref")]), (Term.app "block" [(Term.sym "continue")]), (Term.app "block" [])]), (Term.app "assign" [(Term.sym "value"), (Term.app ".na_value" [(Term.app "getitem" [(Term.sym "ref"), (Term.sym "colname")])])]), (Term.app "assign" [(Term.sym "dtype"), (Term.app ".na_dtype" [(Term.app "getitem" [(Term.sym "ref"), (Term.sym "colname")])])]), (Term.app "return" [(Term.app ".repeat" [(Term.app "Vector.fast" [(Term.app "list" [(Term.sym "value")]), (Term.sym "dtype")]), (Term.app ".nrow" [(Term.sym "data")])])])])])])])]);
  let eff0 : Term := (Term.app "for" [(Term.sym "colname"), colnames', (Term.app "block" [(Term.app "assign" [(Term.sym "parts"), (Term.app "ListComp" [(Term.app "call" [get_part', (Term.sym "x"), (Term.sym "colname")]), (Term.app "in" [(Term.sym "x"), data_frames', (Term.app "if" [])])])]), (Term.app "assign" [(Term.sym "total"), (Term.app "DataFrameColumn" [(Term.app "np.concatenate" [(Term.sym "parts")])])]), (Term.app "yield" [(Term.app "tuple" [(Term.sym "colname"), (Term.sym "total")])])])]);
  let parts' : Term := (Term.app "value-after-loop" [(Term.sym "parts"), eff0]);
  let total' : Term := (Term.app "value-after-loop" [(Term.sym "total"), eff0]);
  Out.fall [eff0]

/-- the decorators of dataiter/data_frame.py: DataFrame.rbind, outermost first -/
def DataFrame_rbind_decorators : List String := ["deco.new_from_generator"]

/-- the signature of dataiter/data_frame.py: DataFrame.rbind: parameters in order, with the source text of their defaults -/
def DataFrame_rbind_signature : List String := ["self", "*others"]

/-- the calls of dataiter/data_frame.py: DataFrame.rbind in the order Python makes them along the source text -/
def DataFrame_rbind_call_order : List String := ["list", "itertools.chain", "util.unique_keys", "get_part", "np.concatenate", "DataFrameColumn"]

/-- dataiter/data_frame.py: DataFrame.rbind.get_part (sha256 of the function source: d2cf862ef2cd62a4) -/
def DataFrame_rbind_get_part (truth : Term → Bool) : Out :=
  if truth (Term.app "In" [(Term.sym "colname"), (Term.sym "data")]) then
    Out.ret [] (Term.app "getitem" [(Term.sym "data"), (Term.sym "colname")])
  else
    let eff0 : Term := (Term.app "for" [(Term.sym "ref"), (Term.sym "data_frames"), (Term.app "block" [(Term.app "if" [(Term.app "NotIn" [(Term.sym "colname"), (Term.sym "ref")]), (Term.app "block" [(Term.sym "continue")]), (Term.app "block" [])]), (Term.app "assign" [(Term.sym "value"), (Term.app ".na_value" [(Term.app "getitem" [(Term.sym "ref"), (Term.sym "colname")])])]), (Term.app "assign" [(Term.sym "dtype"), (Term.app ".na_dtype" [(Term.app "getitem" [(Term.sym "ref"), (Term.sym "colname")])])]), (Term.app "return" [(Term.app ".repeat" [(Term.app "Vector.fast" [(Term.app "list" [(Term.sym "value")]), (Term.sym "dtype")]), (Term.app ".nrow" [(Term.sym "data")])])])])]);
    let value' : Term := (Term.app "value-after-loop" [(Term.sym "value"), eff0]);
    let dtype' : Term := (Term.app "value-after-loop" [(Term.sym "dtype"), eff0]);
    Out.fall [eff0]

/-- the decorators of dataiter/data_frame.py: DataFrame.rbind.get_part, outermost first -/
def DataFrame_rbind_get_part_decorators : List String := []

/-- the signature of dataiter/data_frame.py: DataFrame.rbind.get_part: parameters in order, with the source text of their defaults -/
def DataFrame_rbind_get_part_signature : List String := ["data", "colname"]

/-- the calls of dataiter/data_frame.py: DataFrame.rbind.get_part in the order Python makes them along the source text -/
def DataFrame_rbind_get_part_call_order : List String := ["Vector.fast", "Vector.fast([value], dtype).repeat"]

/-- dataiter/data_frame.py: DataFrame.map (sha256 of the function source: 336f51d47d272d48) -/
def DataFrame_map (truth : Term → Bool) : Out :=
  Out.ret [] (Term.app "ListComp" [(Term.app "function" [(Term.sym "self"), (Term.sym "i")]), (Term.app "in" [(Term.sym "i"), (Term.app "range" [(Term.app ".nrow" [(Term.sym "self")])]), (Term.app "if" [])])])

/-- the decorators of dataiter/data_frame.py: DataFrame.map, outermost first -/
def DataFrame_map_decorators : List String := []

/-- the signature of dataiter/data_frame.py: DataFrame.map: parameters in order, with the source text of their defaults -/
def DataFrame_map_signature : List String := ["self", "function"]

/-- the calls of dataiter/data_frame.py: DataFrame.map in the order Python makes them along the source text -/
def DataFrame_map_call_order : List String := ["function", "range"]

end DI.Gen

/-
  Generated/CodeC06.lean — REGENERATED on every run by harness/py2lean.py from the current source of
  /repo (symbolic execution of small control-flow functions; see Model/PyCore.lean).  Do not edit.
-/
import Model.PyCore

set_option linter.unusedVariables false

namespace DI.Gen

open DI.Py

/-- dataiter/vector.py: Vector.head (sha256 of the function source: e94e78b2fbee3e90) -/
def Vector_head (truth : Term → Bool) (n_is_None : Bool) (dataiter_DEFAULT_PEEK_ELEMENTS : Int) (self_length : Int) (n : Int) : Out :=
  if n_is_None then
    let n' : Int := dataiter_DEFAULT_PEEK_ELEMENTS;
    let n' : Int := (pmin self_length n');
    Out.ret [] (Term.app ".copy" [(Term.app "getitem" [(Term.sym "self"), (Term.rows (arange (0 : Int) n'))])])
  else
    let n' : Int := (pmin self_length n);
    Out.ret [] (Term.app ".copy" [(Term.app "getitem" [(Term.sym "self"), (Term.rows (arange (0 : Int) n'))])])

/-- the decorators of dataiter/vector.py: Vector.head, outermost first -/
def Vector_head_decorators : List String := []

/-- the signature of dataiter/vector.py: Vector.head: parameters in order, with the source text of their defaults -/
def Vector_head_signature : List String := ["self", "n=None"]

/-- the calls of dataiter/vector.py: Vector.head in the order Python makes them along the source text -/
def Vector_head_call_order : List String := ["min", "np.arange", "self[np.arange(n)].copy"]

/-- dataiter/vector.py: Vector.tail (sha256 of the function source: 98e4021f7e2275cc) -/
def Vector_tail (truth : Term → Bool) (n_is_None : Bool) (dataiter_DEFAULT_PEEK_ELEMENTS : Int) (self_length : Int) (n : Int) : Out :=
  if n_is_None then
    let n' : Int := dataiter_DEFAULT_PEEK_ELEMENTS;
    let n' : Int := (pmin self_length n');
    Out.ret [] (Term.app ".copy" [(Term.app "getitem" [(Term.sym "self"), (Term.rows (arange (self_length - n') self_length))])])
  else
    let n' : Int := (pmin self_length n);
    Out.ret [] (Term.app ".copy" [(Term.app "getitem" [(Term.sym "self"), (Term.rows (arange (self_length - n') self_length))])])

/-- the decorators of dataiter/vector.py: Vector.tail, outermost first -/
def Vector_tail_decorators : List String := []

/-- the signature of dataiter/vector.py: Vector.tail: parameters in order, with the source text of their defaults -/
def Vector_tail_signature : List String := ["self", "n=None"]

/-- the calls of dataiter/vector.py: Vector.tail in the order Python makes them along the source text -/
def Vector_tail_call_order : List String := ["min", "np.arange", "self[np.arange(self.length - n, self.length)].copy"]

end DI.Gen

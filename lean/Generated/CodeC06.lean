/-
  Generated/CodeC06.lean — REGENERATED on every run by harness/py2lean.py from the current source of
  /repo (symbolic execution of small control-flow functions; see Model/PyCore.lean).  Do not edit.
-/
import Model.PyCore

set_option linter.unusedVariables false

namespace DI.Gen

open DI.Py

/-- dataiter/vector.py: Vector.head (sha256 of the function source: e94e78b2fbee3e90) -/
def Vector_head (truth : Term → Bool) (n_is_None : Bool) (dataiter_DEFAULT_PEEK_ELEMENTS : Int) (self_length : Int) (n : Int) : Out :=
  if n_is_None then
    let n' : Int := dataiter_DEFAULT_PEEK_ELEMENTS;
    let n' : Int := (pmin self_length n');
    Out.ret [] (Term.app ".copy" [(Term.app "getitem" [(Term.sym "self"), (Term.rows (arange (0 : Int) n'))])])
  else
    let n' : Int := (pmin self_length n);
    Out.ret [] (Term.app ".copy" [(Term.app "getitem" [(Term.sym "self"), (Term.rows (arange (0 : Int) n'))])])

/-- the decorators of dataiter/vector.py: Vector.head, outermost first -/
def Vector_head_decorators : List String := []

/-- the signature of dataiter/vector.py: Vector.head: parameters in order, with the source text of their defaults -/
def Vector_head_signature : List String := ["self", "n=None"]

/-- the calls of dataiter/vector.py: Vector.head in the order Python makes them along the source text -/
def Vector_head_call_order : List String := ["min", "np.arange", "self[np.arange(n)].copy"]

/-- dataiter/vector.py: Vector.tail (sha256 of the function source: 98e4021f7e2275cc) -/
def Vector_tail (truth : Term → Bool) (n_is_None : Bool) (dataiter_DEFAULT_PEEK_ELEMENTS : Int) (self_length : Int) (n : Int) : Out :=
  if n_is_None then
    let n' : Int := dataiter_DEFAULT_PEEK_ELEMENTS;
    let n' : Int := (pmin self_length n');
    Out.ret [] (Term.app ".copy" [(Term.app "getitem" [(Term.sym "self"), (Term.rows (arange (self_length - n') self_length))])])
  else
    let n' : Int := (pmin self_length n);
    Out.ret [] (Term.app ".copy" [(Term.app "getitem" [(Term.sym "self"), (Term.rows (arange (self_length - n') self_length))])])

/-- the decorators of dataiter/vector.py: Vector.tail, outermost first -/
def Vector_tail_decorators : List String := []

/-- the signature of dataiter/vector.py: Vector.tail: parameters in order, with the source text of their defaults -/
def Vector_tail_signature : List String := ["self", "n=None"]

/-- the calls of dataiter/vector.py: Vector.tail in the order Python makes them along the source text -/
def Vector_tail_call_order : List String := ["min", "np.arange", "self[np.arange(self.length - n, self.length)].copy"]

/-- dataiter/vector.py: Vector.concat (sha256 of the function source: 30e1a5513e4e2a0f) -/
def Vector_concat (truth : Term → Bool) : Out :=
  let vectors' : Term := (Term.app "Add" [(Term.app "list" [(Term.sym "self")]), (Term.app "list()" [(Term.sym "others")])]);
  let new' : Term := (Term.app "np.concatenate" [vectors']);
  Out.ret [] (Term.app ".__class__" [(Term.sym "self"), new'])

/-- the decorators of dataiter/vector.py: Vector.concat, outermost first -/
def Vector_concat_decorators : List String := []

/-- the signature of dataiter/vector.py: Vector.concat: parameters in order, with the source text of their defaults -/
def Vector_concat_signature : List String := ["self", "*others"]

/-- the calls of dataiter/vector.py: Vector.concat in the order Python makes them along the source text -/
def Vector_concat_call_order : List String := ["list", "np.concatenate", "self.__class__"]

/-- dataiter/vector.py: Vector.range (sha256 of the function source: 899223885c6f0435) -/
def Vector_range (truth : Term → Bool) : Out :=
  let rng' : Term := (Term.app "list" [(Term.app "np.nanmin" [(Term.sym "self")]), (Term.app "np.nanmax" [(Term.sym "self")])]);
  Out.ret [] (Term.app ".__class__" [(Term.sym "self"), rng', (Term.app ".dtype" [(Term.sym "self")])])

/-- the decorators of dataiter/vector.py: Vector.range, outermost first -/
def Vector_range_decorators : List String := []

/-- the signature of dataiter/vector.py: Vector.range: parameters in order, with the source text of their defaults -/
def Vector_range_signature : List String := ["self"]

/-- the calls of dataiter/vector.py: Vector.range in the order Python makes them along the source text -/
def Vector_range_call_order : List String := ["np.nanmin", "np.nanmax", "self.__class__"]

/-- dataiter/vector.py: Vector.sample (sha256 of the function source: 106b6fe4b7e044aa) -/
def Vector_sample (truth : Term → Bool) (n_is_None : Bool) : Out :=
  if n_is_None then
    let n' : Term := (Term.sym "dataiter.DEFAULT_PEEK_ELEMENTS");
    let n' : Term := (Term.app "min" [(Term.app ".length" [(Term.sym "self")]), n']);
    let indices' : Term := (Term.app "np.random.choice" [(Term.app ".length" [(Term.sym "self")]), n', (Term.app "=replace" [(Term.sym "False")])]);
    Out.ret [] (Term.app ".copy" [(Term.app "getitem" [(Term.sym "self"), (Term.app "np.sort" [indices'])])])
  else
    let n' : Term := (Term.app "min" [(Term.app ".length" [(Term.sym "self")]), (Term.sym "n")]);
    let indices' : Term := (Term.app "np.random.choice" [(Term.app ".length" [(Term.sym "self")]), n', (Term.app "=replace" [(Term.sym "False")])]);
    Out.ret [] (Term.app ".copy" [(Term.app "getitem" [(Term.sym "self"), (Term.app "np.sort" [indices'])])])

/-- the decorators of dataiter/vector.py: Vector.sample, outermost first -/
def Vector_sample_decorators : List String := []

/-- the signature of dataiter/vector.py: Vector.sample: parameters in order, with the source text of their defaults -/
def Vector_sample_signature : List String := ["self", "n=None"]

/-- the calls of dataiter/vector.py: Vector.sample in the order Python makes them along the source text -/
def Vector_sample_call_order : List String := ["min", "np.random.choice", "np.sort", "self[np.sort(indices)].copy"]

/-- dataiter/vector.py: Vector.map (sha256 of the function source: 4e6c062a6b74e085) -/
def Vector_map (truth : Term → Bool) : Out :=
  let dtype' : Term := (Term.app "._map_input_dtype" [(Term.sym "self"), (Term.sym "dtype")]);
  Out.ret [] (Term.app ".__class__" [(Term.sym "self"), (Term.app "GeneratorExp" [(Term.app "function" [(Term.sym "x"), (Term.app "*" [(Term.sym "args")]), (Term.app "=**" [(Term.sym "kwargs")])]), (Term.app "in" [(Term.sym "x"), (Term.sym "self"), (Term.app "if" [])])]), dtype'])

/-- the decorators of dataiter/vector.py: Vector.map, outermost first -/
def Vector_map_decorators : List String := []

/-- the signature of dataiter/vector.py: Vector.map: parameters in order, with the source text of their defaults -/
def Vector_map_signature : List String := ["self", "function", "*args", "dtype=None", "**kwargs"]

/-- the calls of dataiter/vector.py: Vector.map in the order Python makes them along the source text -/
def Vector_map_call_order : List String := ["self._map_input_dtype", "function", "self.__class__"]

/-- dataiter/vector.py: Vector.replace_na (sha256 of the function source: 99122ad6e061dd12) -/
def Vector_replace_na (truth : Term → Bool) : Out :=
  let vector' : Term := (Term.app ".copy" [(Term.sym "self")]);
  let eff0 : Term := (Term.app "store" [(Term.app "getitem" [vector', (Term.app ".is_na" [vector'])]), (Term.sym "value")]);
  Out.ret [eff0] vector'

/-- the decorators of dataiter/vector.py: Vector.replace_na, outermost first -/
def Vector_replace_na_decorators : List String := []

/-- the signature of dataiter/vector.py: Vector.replace_na: parameters in order, with the source text of their defaults -/
def Vector_replace_na_signature : List String := ["self", "value"]

/-- the calls of dataiter/vector.py: Vector.replace_na in the order Python makes them along the source text -/
def Vector_replace_na_call_order : List String := ["self.copy", "vector.is_na"]

/-- dataiter/vector.py: Vector.get_memory_use (sha256 of the function source: 74ebd75a00f4787d) -/
def Vector_get_memory_use (truth : Term → Bool) : Out :=
  if truth (Term.app ".is_object" [(Term.sym "self")]) then
    Out.ret [] (Term.app "sum" [(Term.app "GeneratorExp" [(Term.app "sys.getsizeof" [(Term.sym "x")]), (Term.app "in" [(Term.sym "x"), (Term.sym "self"), (Term.app "if" [])])])])
  else
    Out.ret [] (Term.app ".nbytes" [(Term.sym "self")])

/-- the decorators of dataiter/vector.py: Vector.get_memory_use, outermost first -/
def Vector_get_memory_use_decorators : List String := []

/-- the signature of dataiter/vector.py: Vector.get_memory_use: parameters in order, with the source text of their defaults -/
def Vector_get_memory_use_signature : List String := ["self"]

/-- the calls of dataiter/vector.py: Vector.get_memory_use in the order Python makes them along the source text -/
def Vector_get_memory_use_call_order : List String := ["self.is_object", "sys.getsizeof", "sum"]

/-- dataiter/vector.py: Vector.__array_wrap__ (sha256 of the function source: 96418409e5ee6507) -/
def Vector_array_wrap (truth : Term → Bool) : Out :=
  if ((!truth (Term.app ".shape" [(Term.sym "array")])) || truth (Term.sym "return_scalar")) then
    Out.ret [] (Term.app ".type" [(Term.app ".dtype" [(Term.sym "array")]), (Term.sym "array")])
  else
    Out.ret [] (Term.app ".view" [(Term.sym "array"), (Term.app ".__class__" [(Term.sym "self")])])

/-- the decorators of dataiter/vector.py: Vector.__array_wrap__, outermost first -/
def Vector_array_wrap_decorators : List String := []

/-- the signature of dataiter/vector.py: Vector.__array_wrap__: parameters in order, with the source text of their defaults -/
def Vector_array_wrap_signature : List String := ["self", "array", "context=None", "return_scalar=False"]

/-- the calls of dataiter/vector.py: Vector.__array_wrap__ in the order Python makes them along the source text -/
def Vector_array_wrap_call_order : List String := ["array.dtype.type", "array.view"]

end DI.Gen

/-
  Generated/CodeC14.lean — REGENERATED on every run by harness/py2lean.py from the current source of
  /repo (symbolic execution of small control-flow functions; see Model/PyCore.lean).  Do not edit.
-/
import Model.PyCore

set_option linter.unusedVariables false

namespace DI.Gen

open DI.Py

/-- dataiter/data_frame.py: DataFrame.from_json (sha256 of the function source: 3144d1091f1b9b27) -/
def DataFrame_from_json (truth : Term → Bool) : Out :=
  let data' : Term := (Term.sym "string");
  if truth (Term.app "isinstance" [data', (Term.sym "str")]) then
    let data' : Term := (Term.app "json.loads" [data', (Term.app "=**" [(Term.sym "kwargs")])]);
    if (!truth (Term.app "isinstance" [data', (Term.sym "list")])) then
      Out.raise [] "TypeError"
    else
      let keys' : Term := (Term.app "util.unique_keys" [(Term.app "itertools.chain" [(Term.app "*" [data'])])]);
      if truth (Term.sym "columns") then
        let keys' : Term := (Term.app "ListComp" [(Term.sym "x"), (Term.app "in" [(Term.sym "x"), keys', (Term.app "if" [(Term.app "In" [(Term.sym "x"), (Term.sym "columns")])])])]);
        let data' : Term := (Term.app "DictComp" [(Term.app "pair" [(Term.sym "k"), (Term.app "ListComp" [(Term.app ".get" [(Term.sym "x"), (Term.sym "k"), (Term.sym "None")]), (Term.app "in" [(Term.sym "x"), data', (Term.app "if" [])])])]), (Term.app "in" [(Term.sym "k"), keys', (Term.app "if" [])])]);
        let eff0 : Term := (Term.app "for" [(Term.app "tuple" [(Term.sym "name"), (Term.sym "dtype")]), (Term.app ".items" [(Term.sym "dtypes")]), (Term.app "block" [(Term.app "store" [(Term.app "getitem" [data', (Term.sym "name")]), (Term.app "DataFrameColumn" [(Term.app "getitem" [data', (Term.sym "name")]), (Term.sym "dtype")])])])]);
        Out.ret [eff0] (Term.app "cls" [(Term.app "=**" [data'])])
      else
        let data' : Term := (Term.app "DictComp" [(Term.app "pair" [(Term.sym "k"), (Term.app "ListComp" [(Term.app ".get" [(Term.sym "x"), (Term.sym "k"), (Term.sym "None")]), (Term.app "in" [(Term.sym "x"), data', (Term.app "if" [])])])]), (Term.app "in" [(Term.sym "k"), keys', (Term.app "if" [])])]);
        let eff0 : Term := (Term.app "for" [(Term.app "tuple" [(Term.sym "name"), (Term.sym "dtype")]), (Term.app ".items" [(Term.sym "dtypes")]), (Term.app "block" [(Term.app "store" [(Term.app "getitem" [data', (Term.sym "name")]), (Term.app "DataFrameColumn" [(Term.app "getitem" [data', (Term.sym "name")]), (Term.sym "dtype")])])])]);
        Out.ret [eff0] (Term.app "cls" [(Term.app "=**" [data'])])
  else
    if (!truth (Term.app "isinstance" [data', (Term.sym "list")])) then
      Out.raise [] "TypeError"
    else
      let keys' : Term := (Term.app "util.unique_keys" [(Term.app "itertools.chain" [(Term.app "*" [data'])])]);
      if truth (Term.sym "columns") then
        let keys' : Term := (Term.app "ListComp" [(Term.sym "x"), (Term.app "in" [(Term.sym "x"), keys', (Term.app "if" [(Term.app "In" [(Term.sym "x"), (Term.sym "columns")])])])]);
        let data' : Term := (Term.app "DictComp" [(Term.app "pair" [(Term.sym "k"), (Term.app "ListComp" [(Term.app ".get" [(Term.sym "x"), (Term.sym "k"), (Term.sym "None")]), (Term.app "in" [(Term.sym "x"), data', (Term.app "if" [])])])]), (Term.app "in" [(Term.sym "k"), keys', (Term.app "if" [])])]);
        let eff0 : Term := (Term.app "for" [(Term.app "tuple" [(Term.sym "name"), (Term.sym "dtype")]), (Term.app ".items" [(Term.sym "dtypes")]), (Term.app "block" [(Term.app "store" [(Term.app "getitem" [data', (Term.sym "name")]), (Term.app "DataFrameColumn" [(Term.app "getitem" [data', (Term.sym "name")]), (Term.sym "dtype")])])])]);
        Out.ret [eff0] (Term.app "cls" [(Term.app "=**" [data'])])
      else
        let data' : Term := (Term.app "DictComp" [(Term.app "pair" [(Term.sym "k"), (Term.app "ListComp" [(Term.app ".get" [(Term.sym "x"), (Term.sym "k"), (Term.sym "None")]), (Term.app "in" [(Term.sym "x"), data', (Term.app "if" [])])])]), (Term.app "in" [(Term.sym "k"), keys', (Term.app "if" [])])]);
        let eff0 : Term := (Term.app "for" [(Term.app "tuple" [(Term.sym "name"), (Term.sym "dtype")]), (Term.app ".items" [(Term.sym "dtypes")]), (Term.app "block" [(Term.app "store" [(Term.app "getitem" [data', (Term.sym "name")]), (Term.app "DataFrameColumn" [(Term.app "getitem" [data', (Term.sym "name")]), (Term.sym "dtype")])])])]);
        Out.ret [eff0] (Term.app "cls" [(Term.app "=**" [data'])])

/-- the decorators of dataiter/data_frame.py: DataFrame.from_json, outermost first -/
def DataFrame_from_json_decorators : List String := ["classmethod"]

/-- the signature of dataiter/data_frame.py: DataFrame.from_json: parameters in order, with the source text of their defaults -/
def DataFrame_from_json_signature : List String := ["cls", "string", "*", "columns=[]", "dtypes={}", "**kwargs"]

/-- the calls of dataiter/data_frame.py: DataFrame.from_json in the order Python makes them along the source text -/
def DataFrame_from_json_call_order : List String := ["isinstance", "json.loads", "isinstance", "TypeError", "itertools.chain", "util.unique_keys", "x.get", "dtypes.items", "DataFrameColumn", "cls"]

/-- dataiter/data_frame.py: DataFrame.read_json (sha256 of the function source: d7455ebe58e7fbc6) -/
def DataFrame_read_json (truth : Term → Bool) : Out :=
  let eff0 : Term := (Term.app "with" [(Term.app "util.xopen" [(Term.sym "path"), (Term.sym "'rt'"), (Term.app "=encoding" [(Term.sym "encoding")])])]);
  Out.ret [eff0] (Term.app ".from_json" [(Term.sym "cls"), (Term.app ".read" [eff0]), (Term.app "=columns" [(Term.sym "columns")]), (Term.app "=dtypes" [(Term.sym "dtypes")]), (Term.app "=**" [(Term.sym "kwargs")])])

/-- the decorators of dataiter/data_frame.py: DataFrame.read_json, outermost first -/
def DataFrame_read_json_decorators : List String := ["classmethod"]

/-- the signature of dataiter/data_frame.py: DataFrame.read_json: parameters in order, with the source text of their defaults -/
def DataFrame_read_json_signature : List String := ["cls", "path", "*", "encoding='utf-8'", "columns=[]", "dtypes={}", "**kwargs"]

/-- the calls of dataiter/data_frame.py: DataFrame.read_json in the order Python makes them along the source text -/
def DataFrame_read_json_call_order : List String := ["util.xopen", "f.read", "cls.from_json"]

/-- dataiter/data_frame.py: DataFrame.read_csv (sha256 of the function source: dc35aaded235743c) -/
def DataFrame_read_csv (truth : Term → Bool) : Out :=
  let eff0 : Term := (Term.app "with" [(Term.app "util.xopen" [(Term.sym "path"), (Term.sym "'rb'")])]);
  let table' : Term := (Term.app "csv.read_csv" [eff0, (Term.app "=read_options" [(Term.app "csv.ReadOptions" [(Term.app "=encoding" [(Term.sym "encoding")]), (Term.app "=autogenerate_column_names" [(Term.app "not" [(Term.sym "header")])])])]), (Term.app "=parse_options" [(Term.app "csv.ParseOptions" [(Term.app "=delimiter" [(Term.sym "sep")]), (Term.app "=newlines_in_values" [(Term.sym "True")])])]), (Term.app "=convert_options" [(Term.app "csv.ConvertOptions" [(Term.app "=include_columns" [(if truth (Term.sym "header") then (Term.sym "columns") else (Term.app "list" []))])])])]);
  if (!truth (Term.sym "header")) then
    let names' : Term := (Term.app "util.generate_colnames" [(Term.app "getitem" [(Term.app ".shape" [table']), (Term.int (1 : Int))])]);
    let table' : Term := (Term.app ".rename_columns" [table', names']);
    if truth (Term.sym "columns") then
      let table' : Term := (Term.app ".select" [table', (Term.app "ListComp" [(Term.sym "x"), (Term.app "in" [(Term.sym "x"), names', (Term.app "if" [(Term.app "In" [(Term.sym "x"), (Term.sym "columns")])])])])]);
      Out.ret [eff0] (Term.app ".from_arrow" [(Term.sym "cls"), table', (Term.app "=dtypes" [(Term.sym "dtypes")])])
    else
      Out.ret [eff0] (Term.app ".from_arrow" [(Term.sym "cls"), table', (Term.app "=dtypes" [(Term.sym "dtypes")])])
  else
    Out.ret [eff0] (Term.app ".from_arrow" [(Term.sym "cls"), table', (Term.app "=dtypes" [(Term.sym "dtypes")])])

/-- the decorators of dataiter/data_frame.py: DataFrame.read_csv, outermost first -/
def DataFrame_read_csv_decorators : List String := ["classmethod"]

/-- the signature of dataiter/data_frame.py: DataFrame.read_csv: parameters in order, with the source text of their defaults -/
def DataFrame_read_csv_signature : List String := ["cls", "path", "*", "encoding='utf-8'", "sep=','", "header=True", "columns=[]", "dtypes={}"]

/-- the calls of dataiter/data_frame.py: DataFrame.read_csv in the order Python makes them along the source text -/
def DataFrame_read_csv_call_order : List String := ["util.xopen", "csv.ReadOptions", "csv.ParseOptions", "csv.ConvertOptions", "csv.read_csv", "util.generate_colnames", "table.rename_columns", "table.select", "cls.from_arrow"]

/-- dataiter/data_frame.py: DataFrame.read_parquet (sha256 of the function source: 3e95913a0704035f) -/
def DataFrame_read_parquet (truth : Term → Bool) : Out :=
  let columns' : Term := (Term.app "Or" [(Term.sym "columns"), (Term.sym "None")]);
  let data' : Term := (Term.app "pq.read_table" [(Term.sym "path"), (Term.app "=columns" [columns'])]);
  Out.ret [] (Term.app ".from_arrow" [(Term.sym "cls"), data', (Term.app "=dtypes" [(Term.sym "dtypes")])])

/-- the decorators of dataiter/data_frame.py: DataFrame.read_parquet, outermost first -/
def DataFrame_read_parquet_decorators : List String := ["classmethod"]

/-- the signature of dataiter/data_frame.py: DataFrame.read_parquet: parameters in order, with the source text of their defaults -/
def DataFrame_read_parquet_signature : List String := ["cls", "path", "*", "columns=[]", "dtypes={}"]

/-- the calls of dataiter/data_frame.py: DataFrame.read_parquet in the order Python makes them along the source text -/
def DataFrame_read_parquet_call_order : List String := ["pq.read_table", "cls.from_arrow"]

/-- dataiter/list_of_dicts.py: ListOfDicts.from_json (sha256 of the function source: 747140db1f0360e6) -/
def ListOfDicts_from_json (truth : Term → Bool) : Out :=
  let data' : Term := (Term.app "json.loads" [(Term.sym "string"), (Term.app "=**" [(Term.sym "kwargs")])]);
  if (!truth (Term.app "isinstance" [data', (Term.sym "list")])) then
    Out.raise [] "TypeError"
  else
    if truth (Term.sym "keys") then
      let keys' : Term := (Term.app "set()" [(Term.sym "keys")]);
      let eff0 : Term := (Term.app "for" [(Term.sym "item"), data', (Term.app "block" [(Term.app "for" [(Term.sym "key"), (Term.app "Sub" [(Term.app "set()" [(Term.sym "item")]), keys']), (Term.app "block" [(Term.app "del" [(Term.app "getitem" [(Term.sym "item"), (Term.sym "key")])])])])])]);
      let eff1 : Term := (Term.app "for" [(Term.app "tuple" [(Term.sym "key"), (Term.sym "type")]), (Term.app ".items" [(Term.sym "types")]), (Term.app "block" [(Term.app "for" [(Term.sym "item"), data', (Term.app "block" [(Term.app "if" [(Term.app "In" [(Term.sym "key"), (Term.sym "item")]), (Term.app "block" [(Term.app "store" [(Term.app "getitem" [(Term.sym "item"), (Term.sym "key")]), (Term.app "call" [(Term.sym "type"), (Term.app "getitem" [(Term.sym "item"), (Term.sym "key")])])])]), (Term.app "block" [])])])])])]);
      Out.ret [eff0, eff1] (Term.app "cls" [data'])
    else
      let eff0 : Term := (Term.app "for" [(Term.app "tuple" [(Term.sym "key"), (Term.sym "type")]), (Term.app ".items" [(Term.sym "types")]), (Term.app "block" [(Term.app "for" [(Term.sym "item"), data', (Term.app "block" [(Term.app "if" [(Term.app "In" [(Term.sym "key"), (Term.sym "item")]), (Term.app "block" [(Term.app "store" [(Term.app "getitem" [(Term.sym "item"), (Term.sym "key")]), (Term.app "call" [(Term.sym "type"), (Term.app "getitem" [(Term.sym "item"), (Term.sym "key")])])])]), (Term.app "block" [])])])])])]);
      Out.ret [eff0] (Term.app "cls" [data'])

/-- the decorators of dataiter/list_of_dicts.py: ListOfDicts.from_json, outermost first -/
def ListOfDicts_from_json_decorators : List String := ["classmethod"]

/-- the signature of dataiter/list_of_dicts.py: ListOfDicts.from_json: parameters in order, with the source text of their defaults -/
def ListOfDicts_from_json_signature : List String := ["cls", "string", "*", "keys=[]", "types={}", "**kwargs"]

/-- the calls of dataiter/list_of_dicts.py: ListOfDicts.from_json in the order Python makes them along the source text -/
def ListOfDicts_from_json_call_order : List String := ["json.loads", "isinstance", "TypeError", "set", "set", "types.items", "type", "cls"]

/-- dataiter/list_of_dicts.py: ListOfDicts.read_json (sha256 of the function source: a3234885ed7eafdc) -/
def ListOfDicts_read_json (truth : Term → Bool) : Out :=
  let eff0 : Term := (Term.app "with" [(Term.app "util.xopen" [(Term.sym "path"), (Term.sym "'rt'"), (Term.app "=encoding" [(Term.sym "encoding")])])]);
  Out.ret [eff0] (Term.app ".from_json" [(Term.sym "cls"), (Term.app ".read" [eff0]), (Term.app "=keys" [(Term.sym "keys")]), (Term.app "=types" [(Term.sym "types")]), (Term.app "=**" [(Term.sym "kwargs")])])

/-- the decorators of dataiter/list_of_dicts.py: ListOfDicts.read_json, outermost first -/
def ListOfDicts_read_json_decorators : List String := ["classmethod"]

/-- the signature of dataiter/list_of_dicts.py: ListOfDicts.read_json: parameters in order, with the source text of their defaults -/
def ListOfDicts_read_json_signature : List String := ["cls", "path", "*", "encoding='utf-8'", "keys=[]", "types={}", "**kwargs"]

/-- the calls of dataiter/list_of_dicts.py: ListOfDicts.read_json in the order Python makes them along the source text -/
def ListOfDicts_read_json_call_order : List String := ["util.xopen", "f.read", "cls.from_json"]

/-- dataiter/list_of_dicts.py: ListOfDicts.read_csv (sha256 of the function source: a01be0e8f9a60cb9) -/
def ListOfDicts_read_csv (truth : Term → Bool) : Out :=
  let eff0 : Term := (Term.app "with" [(Term.app "util.xopen" [(Term.sym "path"), (Term.sym "'rt'"), (Term.app "=encoding" [(Term.sym "encoding")])])]);
  let rows' : Term := (Term.app "list()" [(Term.app "csv.reader" [eff0, (Term.app "=dialect" [(Term.sym "'unix'")]), (Term.app "=delimiter" [(Term.sym "sep")])])]);
  if (!truth rows') then
    Out.ret [eff0] (Term.app "cls" [(Term.app "list" [])])
  else
    let colnames' : Term := (if truth (Term.sym "header") then (Term.app ".pop" [rows', (Term.int (0 : Int))]) else (Term.app "util.generate_colnames" [(Term.app "len" [(Term.app "getitem" [rows', (Term.int (0 : Int))])])]));
    if truth (Term.sym "keys") then
      let drop' : Term := (Term.app "ListComp" [(Term.sym "i"), (Term.app "in" [(Term.sym "i"), (Term.app "range" [(Term.app "len" [(Term.app "getitem" [rows', (Term.int (0 : Int))])])]), (Term.app "if" [(Term.app "NotIn" [(Term.app "getitem" [colnames', (Term.sym "i")]), (Term.sym "keys")])])])]);
      let eff1 : Term := (Term.app "for" [(Term.sym "row"), rows', (Term.app "block" [(Term.app "for" [(Term.sym "i"), (Term.app "reversed" [drop']), (Term.app "block" [(Term.app "del" [(Term.app "getitem" [(Term.sym "row"), (Term.sym "i")])])])])])]);
      let colnames' : Term := (Term.app "ListComp" [(Term.sym "x"), (Term.app "in" [(Term.sym "x"), colnames', (Term.app "if" [(Term.app "In" [(Term.sym "x"), (Term.sym "keys")])])])]);
      let data' : Term := (Term.app "cls" [(Term.app "GeneratorExp" [(Term.app "dict()" [(Term.app "zip" [colnames', (Term.sym "x")])]), (Term.app "in" [(Term.sym "x"), rows', (Term.app "if" [])])])]);
      let eff2 : Term := (Term.app "for" [(Term.app "tuple" [(Term.sym "key"), (Term.sym "type")]), (Term.app ".items" [(Term.sym "types")]), (Term.app "block" [(Term.app "for" [(Term.sym "item"), data', (Term.app "block" [(Term.app "if" [(Term.app "In" [(Term.sym "key"), (Term.sym "item")]), (Term.app "block" [(Term.app "store" [(Term.app "getitem" [(Term.sym "item"), (Term.sym "key")]), (Term.app "call" [(Term.sym "type"), (Term.app "getitem" [(Term.sym "item"), (Term.sym "key")])])])]), (Term.app "block" [])])])])])]);
      Out.ret [eff0, eff1, eff2] data'
    else
      let data' : Term := (Term.app "cls" [(Term.app "GeneratorExp" [(Term.app "dict()" [(Term.app "zip" [colnames', (Term.sym "x")])]), (Term.app "in" [(Term.sym "x"), rows', (Term.app "if" [])])])]);
      let eff1 : Term := (Term.app "for" [(Term.app "tuple" [(Term.sym "key"), (Term.sym "type")]), (Term.app ".items" [(Term.sym "types")]), (Term.app "block" [(Term.app "for" [(Term.sym "item"), data', (Term.app "block" [(Term.app "if" [(Term.app "In" [(Term.sym "key"), (Term.sym "item")]), (Term.app "block" [(Term.app "store" [(Term.app "getitem" [(Term.sym "item"), (Term.sym "key")]), (Term.app "call" [(Term.sym "type"), (Term.app "getitem" [(Term.sym "item"), (Term.sym "key")])])])]), (Term.app "block" [])])])])])]);
      Out.ret [eff0, eff1] data'

/-- the decorators of dataiter/list_of_dicts.py: ListOfDicts.read_csv, outermost first -/
def ListOfDicts_read_csv_decorators : List String := ["classmethod"]

/-- the signature of dataiter/list_of_dicts.py: ListOfDicts.read_csv: parameters in order, with the source text of their defaults -/
def ListOfDicts_read_csv_signature : List String := ["cls", "path", "*", "encoding='utf-8'", "sep=','", "header=True", "keys=[]", "types={}"]

/-- the calls of dataiter/list_of_dicts.py: ListOfDicts.read_csv in the order Python makes them along the source text -/
def ListOfDicts_read_csv_call_order : List String := ["util.xopen", "csv.reader", "list", "cls", "rows.pop", "len", "util.generate_colnames", "len", "range", "reversed", "zip", "dict", "cls", "types.items", "type"]

/-- dataiter/io.py: read_csv (sha256 of the function source: 464625d47d0c05e5) -/
def io_read_csv (truth : Term → Bool) : Out :=
  Out.ret [] (Term.app "DataFrame.read_csv" [(Term.sym "path"), (Term.app "=encoding" [(Term.sym "encoding")]), (Term.app "=sep" [(Term.sym "sep")]), (Term.app "=header" [(Term.sym "header")]), (Term.app "=columns" [(Term.sym "columns")]), (Term.app "=dtypes" [(Term.sym "dtypes")])])

/-- the decorators of dataiter/io.py: read_csv, outermost first -/
def io_read_csv_decorators : List String := []

/-- the signature of dataiter/io.py: read_csv: parameters in order, with the source text of their defaults -/
def io_read_csv_signature : List String := ["path", "*", "encoding='utf-8'", "sep=','", "header=True", "columns=[]", "dtypes={}"]

/-- the calls of dataiter/io.py: read_csv in the order Python makes them along the source text -/
def io_read_csv_call_order : List String := ["DataFrame.read_csv"]

/-- dataiter/io.py: read_geojson (sha256 of the function source: b04480963b01cd1a) -/
def io_read_geojson (truth : Term → Bool) : Out :=
  Out.ret [] (Term.app "GeoJSON.read" [(Term.sym "path"), (Term.app "=encoding" [(Term.sym "encoding")]), (Term.app "=columns" [(Term.sym "columns")]), (Term.app "=dtypes" [(Term.sym "dtypes")]), (Term.app "=**" [(Term.sym "kwargs")])])

/-- the decorators of dataiter/io.py: read_geojson, outermost first -/
def io_read_geojson_decorators : List String := []

/-- the signature of dataiter/io.py: read_geojson: parameters in order, with the source text of their defaults -/
def io_read_geojson_signature : List String := ["path", "*", "encoding='utf-8'", "columns=[]", "dtypes={}", "**kwargs"]

/-- the calls of dataiter/io.py: read_geojson in the order Python makes them along the source text -/
def io_read_geojson_call_order : List String := ["GeoJSON.read"]

/-- dataiter/io.py: read_json (sha256 of the function source: ed644ef9d8ac0c55) -/
def io_read_json (truth : Term → Bool) : Out :=
  Out.ret [] (Term.app "ListOfDicts.read_json" [(Term.sym "path"), (Term.app "=encoding" [(Term.sym "encoding")]), (Term.app "=keys" [(Term.sym "keys")]), (Term.app "=types" [(Term.sym "types")]), (Term.app "=**" [(Term.sym "kwargs")])])

/-- the decorators of dataiter/io.py: read_json, outermost first -/
def io_read_json_decorators : List String := []

/-- the signature of dataiter/io.py: read_json: parameters in order, with the source text of their defaults -/
def io_read_json_signature : List String := ["path", "*", "encoding='utf-8'", "keys=[]", "types={}", "**kwargs"]

/-- the calls of dataiter/io.py: read_json in the order Python makes them along the source text -/
def io_read_json_call_order : List String := ["ListOfDicts.read_json"]

/-- dataiter/io.py: read_npz (sha256 of the function source: 7d2137080161fe7e) -/
def io_read_npz (truth : Term → Bool) : Out :=
  Out.ret [] (Term.app "DataFrame.read_npz" [(Term.sym "path"), (Term.app "=allow_pickle" [(Term.sym "allow_pickle")])])

/-- the decorators of dataiter/io.py: read_npz, outermost first -/
def io_read_npz_decorators : List String := []

/-- the signature of dataiter/io.py: read_npz: parameters in order, with the source text of their defaults -/
def io_read_npz_signature : List String := ["path", "*", "allow_pickle=True"]

/-- the calls of dataiter/io.py: read_npz in the order Python makes them along the source text -/
def io_read_npz_call_order : List String := ["DataFrame.read_npz"]

/-- dataiter/io.py: read_parquet (sha256 of the function source: 466f895773972ff4) -/
def io_read_parquet (truth : Term → Bool) : Out :=
  Out.ret [] (Term.app "DataFrame.read_parquet" [(Term.sym "path"), (Term.app "=columns" [(Term.sym "columns")]), (Term.app "=dtypes" [(Term.sym "dtypes")])])

/-- the decorators of dataiter/io.py: read_parquet, outermost first -/
def io_read_parquet_decorators : List String := []

/-- the signature of dataiter/io.py: read_parquet: parameters in order, with the source text of their defaults -/
def io_read_parquet_signature : List String := ["path", "*", "columns=[]", "dtypes={}"]

/-- the calls of dataiter/io.py: read_parquet in the order Python makes them along the source text -/
def io_read_parquet_call_order : List String := ["DataFrame.read_parquet"]

/-- dataiter/util.py: format_alias_doc (sha256 of the function source: 3b0f4ec442860cfa) -/
def util_format_alias_doc (truth : Term → Bool) : Out :=
  Out.ret [] (Term.app "Add" [(Term.app "fstring" [(Term.app "format" [(Term.app ".__doc__" [(Term.sym "target")]), (Term.sym ""), (Term.int (-1 : Int))]), (Term.sym "'\\n\\n'"), (Term.app "format" [(Term.app "Mult" [(Term.sym "' '"), (Term.int (8 : Int))]), (Term.sym ""), (Term.int (-1 : Int))])]), (Term.app ".format" [(Term.sym "'.. note:: :func:`{}` is a convenience alias for :meth:`{}`.'"), (Term.app ".__name__" [(Term.sym "alias")]), (Term.app ".__qualname__" [(Term.sym "target")])])])

/-- the decorators of dataiter/util.py: format_alias_doc, outermost first -/
def util_format_alias_doc_decorators : List String := []

/-- the signature of dataiter/util.py: format_alias_doc: parameters in order, with the source text of their defaults -/
def util_format_alias_doc_signature : List String := ["alias", "target"]

/-- the calls of dataiter/util.py: format_alias_doc in the order Python makes them along the source text -/
def util_format_alias_doc_call_order : List String := ["'.. note:: :func:`{}` is a convenience alias for :meth:`{}`.'.format"]

end DI.Gen

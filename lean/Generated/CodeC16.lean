/-
  Generated/CodeC16.lean — REGENERATED on every run by harness/py2lean.py from the current source of
  /repo (symbolic execution of small control-flow functions; see Model/PyCore.lean).  Do not edit.
-/
import Model.PyCore

set_option linter.unusedVariables false

namespace DI.Gen

open DI.Py

/-- dataiter/list_of_dicts.py: ListOfDicts.group_by (sha256 of the function source: 6a7f309844f255cb) -/
def ListOfDicts_group_by (truth : Term → Bool) : Out :=
  let attr0_1' : Term := (Term.app "tuple()" [(Term.sym "keys")]);
  let eff0 : Term := (Term.app "setattr" [(Term.sym "self"), (Term.sym "_group_keys"), attr0_1']);
  Out.ret [eff0] (Term.sym "self")

/-- the decorators of dataiter/list_of_dicts.py: ListOfDicts.group_by, outermost first -/
def ListOfDicts_group_by_decorators : List String := []

/-- the signature of dataiter/list_of_dicts.py: ListOfDicts.group_by: parameters in order, with the source text of their defaults -/
def ListOfDicts_group_by_signature : List String := ["self", "*keys"]

/-- the calls of dataiter/list_of_dicts.py: ListOfDicts.group_by in the order Python makes them along the source text -/
def ListOfDicts_group_by_call_order : List String := ["tuple"]

/-- dataiter/list_of_dicts.py: ListOfDicts.anti_join (sha256 of the function source: 239f983edc83bde5) -/
def ListOfDicts_anti_join (truth : Term → Bool) : Out :=
  let tup0_1' : Term := (Term.app "._split_join_by" [(Term.sym "self"), (Term.app "*" [(Term.sym "by")])]);
  let by1' : Term := (Term.app "item0" [tup0_1']);
  let by2' : Term := (Term.app "item1" [tup0_1']);
  let extract1' : Term := (Term.app "operator.itemgetter" [(Term.app "*" [by1'])]);
  let extract2' : Term := (Term.app "operator.itemgetter" [(Term.app "*" [by2'])]);
  let other_ids' : Term := (Term.app "set()" [(Term.app "map" [extract2', (Term.sym "other")])]);
  let eff0 : Term := (Term.app "for" [(Term.sym "item"), (Term.sym "self"), (Term.app "block" [(Term.app "if" [(Term.app "NotIn" [(Term.app "call" [extract1', (Term.sym "item")]), other_ids']), (Term.app "block" [(Term.app "yield" [(Term.sym "item")])]), (Term.app "block" [])])])]);
  Out.fall [eff0]

/-- the decorators of dataiter/list_of_dicts.py: ListOfDicts.anti_join, outermost first -/
def ListOfDicts_anti_join_decorators : List String := ["deco.new_from_generator"]

/-- the signature of dataiter/list_of_dicts.py: ListOfDicts.anti_join: parameters in order, with the source text of their defaults -/
def ListOfDicts_anti_join_signature : List String := ["self", "other", "*by"]

/-- the calls of dataiter/list_of_dicts.py: ListOfDicts.anti_join in the order Python makes them along the source text -/
def ListOfDicts_anti_join_call_order : List String := ["self._split_join_by", "operator.itemgetter", "operator.itemgetter", "map", "set", "extract1"]

/-- dataiter/list_of_dicts.py: ListOfDicts.inner_join (sha256 of the function source: 2a3392b4a2f7e25d) -/
def ListOfDicts_inner_join (truth : Term → Bool) : Out :=
  let tup0_1' : Term := (Term.app "._split_join_by" [(Term.sym "self"), (Term.app "*" [(Term.sym "by")])]);
  let by1' : Term := (Term.app "item0" [tup0_1']);
  let by2' : Term := (Term.app "item1" [tup0_1']);
  let extract1' : Term := (Term.app "operator.itemgetter" [(Term.app "*" [by1'])]);
  let extract2' : Term := (Term.app "operator.itemgetter" [(Term.app "*" [by2'])]);
  let other_by_id' : Term := (Term.app "DictComp" [(Term.app "pair" [(Term.app "call" [extract2', (Term.sym "x")]), (Term.sym "x")]), (Term.app "in" [(Term.sym "x"), (Term.app "reversed" [(Term.sym "other")]), (Term.app "if" [])])]);
  let eff0 : Term := (Term.app "for" [(Term.sym "item"), (Term.sym "self"), (Term.app "block" [(Term.app "assign" [(Term.sym "id"), (Term.app "call" [extract1', (Term.sym "item")])]), (Term.app "if" [(Term.app "In" [(Term.sym "id"), other_by_id']), (Term.app "block" [(Term.app "assign" [(Term.sym "new"), (Term.app "getitem" [other_by_id', (Term.sym "id")])]), (Term.app "assign" [(Term.sym "new"), (Term.app "DictComp" [(Term.app "pair" [(Term.sym "k"), (Term.sym "v")]), (Term.app "in" [(Term.app "tuple" [(Term.sym "k"), (Term.sym "v")]), (Term.app ".items" [(Term.sym "new")]), (Term.app "if" [(Term.app "NotIn" [(Term.sym "k"), by2'])])])])]), (Term.app ".update" [(Term.sym "item"), (Term.sym "new")]), (Term.app "yield" [(Term.sym "item")])]), (Term.app "block" [])])])]);
  let id' : Term := (Term.app "value-after-loop" [(Term.sym "id"), eff0]);
  let new' : Term := (Term.app "value-after-loop" [(Term.sym "new"), eff0]);
  Out.fall [eff0]

/-- the decorators of dataiter/list_of_dicts.py: ListOfDicts.inner_join, outermost first -/
def ListOfDicts_inner_join_decorators : List String := ["deco.obsoletes", "deco.new_from_generator"]

/-- the signature of dataiter/list_of_dicts.py: ListOfDicts.inner_join: parameters in order, with the source text of their defaults -/
def ListOfDicts_inner_join_signature : List String := ["self", "other", "*by"]

/-- the calls of dataiter/list_of_dicts.py: ListOfDicts.inner_join in the order Python makes them along the source text -/
def ListOfDicts_inner_join_call_order : List String := ["self._split_join_by", "operator.itemgetter", "operator.itemgetter", "extract2", "reversed", "extract1", "new.items", "item.update"]

/-- dataiter/list_of_dicts.py: ListOfDicts.full_join (sha256 of the function source: fa2fdb6b559a09d8) -/
def ListOfDicts_full_join (truth : Term → Bool) : Out :=
  let acounter' : Term := (Term.app "itertools.count" [(Term.app "=start" [(Term.int (1 : Int))])]);
  let bcounter' : Term := (Term.app "itertools.count" [(Term.app "=start" [(Term.int (1 : Int))])]);
  let a' : Term := (Term.app ".modify" [(Term.app ".deepcopy" [(Term.sym "self")]), (Term.app "=_aid_" [(Term.app "lambda" [(Term.app "params" [(Term.sym "x")]), (Term.app "next" [acounter'])])])]);
  let b' : Term := (Term.app ".modify" [(Term.app ".deepcopy" [(Term.sym "other")]), (Term.app "=_bid_" [(Term.app "lambda" [(Term.app "params" [(Term.sym "x")]), (Term.app "next" [bcounter'])])])]);
  let ab' : Term := (Term.app ".left_join" [(Term.app ".deepcopy" [a']), b', (Term.app "*" [(Term.sym "by")])]);
  let ab' : Term := (Term.app ".fill_missing_keys" [ab', (Term.app "=_bid_" [(Term.app "next" [bcounter'])])]);
  let b' : Term := (Term.app ".anti_join" [b', ab', (Term.sym "'_bid_'")]);
  if truth (Term.app "Eq" [(Term.app "len" [b']), (Term.int (0 : Int))]) then
    Out.ret [] (Term.app ".unselect" [ab', (Term.sym "'_aid_'"), (Term.sym "'_bid_'")])
  else
    let by_reverse' : Term := (Term.app "ListComp" [(Term.app "ifexp" [(Term.app "isinstance" [(Term.sym "x"), (Term.app "tuple" [(Term.sym "list"), (Term.sym "tuple")])]), (Term.app "tuple()" [(Term.app "reversed" [(Term.sym "x")])]), (Term.sym "x")]), (Term.app "in" [(Term.sym "x"), (Term.sym "by"), (Term.app "if" [])])]);
    let ba' : Term := (Term.app ".left_join" [b', a', (Term.app "*" [by_reverse'])]);
    let ba' : Term := (Term.app ".fill_missing_keys" [ba', (Term.app "=_aid_" [(Term.app "next" [acounter'])])]);
    Out.ret [] (Term.app ".unselect" [(Term.app ".sort" [(Term.app "Add" [ab', ba']), (Term.app "=_aid_" [(Term.int (1 : Int))]), (Term.app "=_bid_" [(Term.int (1 : Int))])]), (Term.sym "'_aid_'"), (Term.sym "'_bid_'")])

/-- the decorators of dataiter/list_of_dicts.py: ListOfDicts.full_join, outermost first -/
def ListOfDicts_full_join_decorators : List String := []

/-- the signature of dataiter/list_of_dicts.py: ListOfDicts.full_join: parameters in order, with the source text of their defaults -/
def ListOfDicts_full_join_signature : List String := ["self", "other", "*by"]

/-- the calls of dataiter/list_of_dicts.py: ListOfDicts.full_join in the order Python makes them along the source text -/
def ListOfDicts_full_join_call_order : List String := ["itertools.count", "itertools.count", "self.deepcopy", "self.deepcopy().modify", "other.deepcopy", "other.deepcopy().modify", "a.deepcopy", "a.deepcopy().left_join", "next", "ab.fill_missing_keys", "b.anti_join", "len", "ab.unselect", "isinstance", "reversed", "tuple", "b.left_join", "next", "ba.fill_missing_keys", "(ab + ba).sort", "(ab + ba).sort(_aid_=1, _bid_=1).unselect"]

/-- dataiter/list_of_dicts.py: ListOfDicts._split_join_by (sha256 of the function source: 514e3228ccced4c1) -/
def ListOfDicts_split_join_by (truth : Term → Bool) : Out :=
  let by1' : Term := (Term.app "ListComp" [(Term.app "ifexp" [(Term.app "isinstance" [(Term.sym "x"), (Term.sym "str")]), (Term.sym "x"), (Term.app "getitem" [(Term.sym "x"), (Term.int (0 : Int))])]), (Term.app "in" [(Term.sym "x"), (Term.sym "by"), (Term.app "if" [])])]);
  let by2' : Term := (Term.app "ListComp" [(Term.app "ifexp" [(Term.app "isinstance" [(Term.sym "x"), (Term.sym "str")]), (Term.sym "x"), (Term.app "getitem" [(Term.sym "x"), (Term.int (1 : Int))])]), (Term.app "in" [(Term.sym "x"), (Term.sym "by"), (Term.app "if" [])])]);
  Out.ret [] (Term.app "tuple" [by1', by2'])

/-- the decorators of dataiter/list_of_dicts.py: ListOfDicts._split_join_by, outermost first -/
def ListOfDicts_split_join_by_decorators : List String := []

/-- the signature of dataiter/list_of_dicts.py: ListOfDicts._split_join_by: parameters in order, with the source text of their defaults -/
def ListOfDicts_split_join_by_signature : List String := ["self", "*by"]

/-- the calls of dataiter/list_of_dicts.py: ListOfDicts._split_join_by in the order Python makes them along the source text -/
def ListOfDicts_split_join_by_call_order : List String := ["isinstance", "isinstance"]

/-- dataiter/list_of_dicts.py: ListOfDicts.aggregate (sha256 of the function source: 54015ea61e3b2491) -/
def ListOfDicts_aggregate (truth : Term → Bool) : Out :=
  let by' : Term := (Term.app "._group_keys" [(Term.sym "self")]);
  let groups' : Term := (Term.app ".select" [(Term.app ".deepcopy" [(Term.app ".unique" [(Term.sym "self"), (Term.app "*" [by'])])]), (Term.app "*" [by'])]);
  let extract' : Term := (Term.app "operator.itemgetter" [(Term.app "*" [by'])]);
  let items_by_group' : Term := (Term.sym "{}");
  let eff0 : Term := (Term.app "for" [(Term.sym "item"), (Term.sym "self"), (Term.app "block" [(Term.app "assign" [(Term.sym "id"), (Term.app "call" [extract', (Term.sym "item")])]), (Term.app ".append" [(Term.app ".setdefault" [items_by_group', (Term.sym "id"), (Term.app "list" [])]), (Term.sym "item")])])]);
  let id' : Term := (Term.app "value-after-loop" [(Term.sym "id"), eff0]);
  let key_function_pairs' : Term := (Term.app ".items" [(Term.sym "key_function_pairs")]);
  let eff1 : Term := (Term.app "for" [(Term.sym "group"), (Term.app ".sort" [groups', (Term.app "=**" [(Term.app "dict.fromkeys" [by', (Term.int (1 : Int))])])]), (Term.app "block" [(Term.app "assign" [(Term.sym "id"), (Term.app "call" [extract', (Term.sym "group")])]), (Term.app "assign" [(Term.sym "items"), (Term.app "ListOfDicts" [(Term.app "getitem" [items_by_group', (Term.sym "id")])])]), (Term.app "for" [(Term.app "tuple" [(Term.sym "key"), (Term.sym "function")]), key_function_pairs', (Term.app "block" [(Term.app "store" [(Term.app "getitem" [(Term.sym "group"), (Term.sym "key")]), (Term.app "call" [(Term.sym "function"), (Term.sym "items")])])])]), (Term.app "yield" [(Term.sym "group")])]), (Term.app "init" [(Term.sym "id"), id'])]);
  let id' : Term := (Term.app "value-after-loop" [(Term.sym "id"), eff1]);
  let items' : Term := (Term.app "value-after-loop" [(Term.sym "items"), eff1]);
  Out.fall [eff0, eff1]

/-- the decorators of dataiter/list_of_dicts.py: ListOfDicts.aggregate, outermost first -/
def ListOfDicts_aggregate_decorators : List String := ["deco.new_from_generator"]

/-- the signature of dataiter/list_of_dicts.py: ListOfDicts.aggregate: parameters in order, with the source text of their defaults -/
def ListOfDicts_aggregate_signature : List String := ["self", "**key_function_pairs"]

/-- the calls of dataiter/list_of_dicts.py: ListOfDicts.aggregate in the order Python makes them along the source text -/
def ListOfDicts_aggregate_call_order : List String := ["self.unique", "self.unique(*by).deepcopy", "self.unique(*by).deepcopy().select", "operator.itemgetter", "extract", "items_by_group.setdefault", "items_by_group.setdefault(id, []).append", "key_function_pairs.items", "dict.fromkeys", "groups.sort", "extract", "ListOfDicts", "function"]

/-- dataiter/list_of_dicts.py: ListOfDicts.left_join (sha256 of the function source: 006ed310d1531972) -/
def ListOfDicts_left_join (truth : Term → Bool) : Out :=
  let tup0_1' : Term := (Term.app "._split_join_by" [(Term.sym "self"), (Term.app "*" [(Term.sym "by")])]);
  let by1' : Term := (Term.app "item0" [tup0_1']);
  let by2' : Term := (Term.app "item1" [tup0_1']);
  let extract1' : Term := (Term.app "operator.itemgetter" [(Term.app "*" [by1'])]);
  let extract2' : Term := (Term.app "operator.itemgetter" [(Term.app "*" [by2'])]);
  let other_by_id' : Term := (Term.app "DictComp" [(Term.app "pair" [(Term.app "call" [extract2', (Term.sym "x")]), (Term.sym "x")]), (Term.app "in" [(Term.sym "x"), (Term.app "reversed" [(Term.sym "other")]), (Term.app "if" [])])]);
  let eff0 : Term := (Term.app "for" [(Term.sym "item"), (Term.sym "self"), (Term.app "block" [(Term.app "assign" [(Term.sym "new"), (Term.app ".get" [other_by_id', (Term.app "call" [extract1', (Term.sym "item")]), (Term.sym "{}")])]), (Term.app "assign" [(Term.sym "new"), (Term.app "DictComp" [(Term.app "pair" [(Term.sym "k"), (Term.sym "v")]), (Term.app "in" [(Term.app "tuple" [(Term.sym "k"), (Term.sym "v")]), (Term.app ".items" [(Term.sym "new")]), (Term.app "if" [(Term.app "NotIn" [(Term.sym "k"), by2'])])])])]), (Term.app ".update" [(Term.sym "item"), (Term.sym "new")]), (Term.app "yield" [(Term.sym "item")])])]);
  let new' : Term := (Term.app "value-after-loop" [(Term.sym "new"), eff0]);
  Out.fall [eff0]

/-- the decorators of dataiter/list_of_dicts.py: ListOfDicts.left_join, outermost first -/
def ListOfDicts_left_join_decorators : List String := ["deco.obsoletes", "deco.new_from_generator"]

/-- the signature of dataiter/list_of_dicts.py: ListOfDicts.left_join: parameters in order, with the source text of their defaults -/
def ListOfDicts_left_join_signature : List String := ["self", "other", "*by"]

/-- the calls of dataiter/list_of_dicts.py: ListOfDicts.left_join in the order Python makes them along the source text -/
def ListOfDicts_left_join_call_order : List String := ["self._split_join_by", "operator.itemgetter", "operator.itemgetter", "extract2", "reversed", "extract1", "other_by_id.get", "new.items", "item.update"]

/-- dataiter/list_of_dicts.py: ListOfDicts.semi_join (sha256 of the function source: 1a2b464ac3263fa5) -/
def ListOfDicts_semi_join (truth : Term → Bool) : Out :=
  let tup0_1' : Term := (Term.app "._split_join_by" [(Term.sym "self"), (Term.app "*" [(Term.sym "by")])]);
  let by1' : Term := (Term.app "item0" [tup0_1']);
  let by2' : Term := (Term.app "item1" [tup0_1']);
  let extract1' : Term := (Term.app "operator.itemgetter" [(Term.app "*" [by1'])]);
  let extract2' : Term := (Term.app "operator.itemgetter" [(Term.app "*" [by2'])]);
  let other_ids' : Term := (Term.app "set()" [(Term.app "map" [extract2', (Term.sym "other")])]);
  let eff0 : Term := (Term.app "for" [(Term.sym "item"), (Term.sym "self"), (Term.app "block" [(Term.app "if" [(Term.app "In" [(Term.app "call" [extract1', (Term.sym "item")]), other_ids']), (Term.app "block" [(Term.app "yield" [(Term.sym "item")])]), (Term.app "block" [])])])]);
  Out.fall [eff0]

/-- the decorators of dataiter/list_of_dicts.py: ListOfDicts.semi_join, outermost first -/
def ListOfDicts_semi_join_decorators : List String := ["deco.new_from_generator"]

/-- the signature of dataiter/list_of_dicts.py: ListOfDicts.semi_join: parameters in order, with the source text of their defaults -/
def ListOfDicts_semi_join_signature : List String := ["self", "other", "*by"]

/-- the calls of dataiter/list_of_dicts.py: ListOfDicts.semi_join in the order Python makes them along the source text -/
def ListOfDicts_semi_join_call_order : List String := ["self._split_join_by", "operator.itemgetter", "operator.itemgetter", "map", "set", "extract1"]

/-- dataiter/list_of_dicts.py: ListOfDicts.split (sha256 of the function source: a3208cbb34d7f6e8) -/
def ListOfDicts_split (truth : Term → Bool) : Out :=
  let extract' : Term := (Term.app "operator.itemgetter" [(Term.app "*" [(Term.sym "by")])]);
  let indices_by_group' : Term := (Term.sym "{}");
  let eff0 : Term := (Term.app "for" [(Term.app "tuple" [(Term.sym "i"), (Term.sym "item")]), (Term.app "enumerate" [(Term.sym "self")]), (Term.app "block" [(Term.app "assign" [(Term.sym "id"), (Term.app "call" [extract', (Term.sym "item")])]), (Term.app ".append" [(Term.app ".setdefault" [indices_by_group', (Term.sym "id"), (Term.app "list" [])]), (Term.sym "i")])])]);
  let id' : Term := (Term.app "value-after-loop" [(Term.sym "id"), eff0]);
  Out.ret [eff0] (Term.app "list()" [(Term.app ".values" [indices_by_group'])])

/-- the decorators of dataiter/list_of_dicts.py: ListOfDicts.split, outermost first -/
def ListOfDicts_split_decorators : List String := []

/-- the signature of dataiter/list_of_dicts.py: ListOfDicts.split: parameters in order, with the source text of their defaults -/
def ListOfDicts_split_signature : List String := ["self", "*by"]

/-- the calls of dataiter/list_of_dicts.py: ListOfDicts.split in the order Python makes them along the source text -/
def ListOfDicts_split_call_order : List String := ["operator.itemgetter", "enumerate", "extract", "indices_by_group.setdefault", "indices_by_group.setdefault(id, []).append", "indices_by_group.values", "list"]

end DI.Gen

/-
  Generated/CodeC16.lean — REGENERATED on every run by harness/py2lean.py from the current source of
  /repo (symbolic execution of small control-flow functions; see Model/PyCore.lean).  Do not edit.
-/
import Model.PyCore

set_option linter.unusedVariables false

namespace DI.Gen

open DI.Py

/-- dataiter/list_of_dicts.py: ListOfDicts.left_join (sha256 of the function source: 006ed310d1531972) -/
def ListOfDicts_left_join (truth : Term → Bool) : Out :=
  let tup0_1' : Term := (Term.app "._split_join_by" [(Term.sym "self"), (Term.app "*" [(Term.sym "by")])]);
  let by1' : Term := (Term.app "item0" [tup0_1']);
  let by2' : Term := (Term.app "item1" [tup0_1']);
  let extract1' : Term := (Term.app "operator.itemgetter" [(Term.app "*" [by1'])]);
  let extract2' : Term := (Term.app "operator.itemgetter" [(Term.app "*" [by2'])]);
  let other_by_id' : Term := (Term.app "DictComp" [(Term.app "pair" [(Term.app "call" [extract2', (Term.sym "x")]), (Term.sym "x")]), (Term.app "in" [(Term.sym "x"), (Term.app "reversed" [(Term.sym "other")]), (Term.app "if" [])])]);
  let eff0 : Term := (Term.app "for" [(Term.sym "item"), (Term.sym "self"), (Term.app "block" [(Term.app "assign" [(Term.sym "new"), (Term.app ".get" [other_by_id', (Term.app "call" [extract1', (Term.sym "item")]), (Term.sym "{}")])]), (Term.app "assign" [(Term.sym "new"), (Term.app "DictComp" [(Term.app "pair" [(Term.sym "k"), (Term.sym "v")]), (Term.app "in" [(Term.app "tuple" [(Term.sym "k"), (Term.sym "v")]), (Term.app ".items" [(Term.sym "new")]), (Term.app "if" [(Term.app "NotIn" [(Term.sym "k"), by2'])])])])]), (Term.app ".update" [(Term.sym "item"), (Term.sym "new")]), (Term.app "yield" [(Term.sym "item")])])]);
  let new' : Term := (Term.app "value-after-loop" [(Term.sym "new"), eff0]);
  Out.fall [eff0]

/-- dataiter/list_of_dicts.py: ListOfDicts.semi_join (sha256 of the function source: 1a2b464ac3263fa5) -/
def ListOfDicts_semi_join (truth : Term → Bool) : Out :=
  let tup0_1' : Term := (Term.app "._split_join_by" [(Term.sym "self"), (Term.app "*" [(Term.sym "by")])]);
  let by1' : Term := (Term.app "item0" [tup0_1']);
  let by2' : Term := (Term.app "item1" [tup0_1']);
  let extract1' : Term := (Term.app "operator.itemgetter" [(Term.app "*" [by1'])]);
  let extract2' : Term := (Term.app "operator.itemgetter" [(Term.app "*" [by2'])]);
  let other_ids' : Term := (Term.app "set" [(Term.app "map" [extract2', (Term.sym "other")])]);
  let eff0 : Term := (Term.app "for" [(Term.sym "item"), (Term.sym "self"), (Term.app "block" [(Term.app "if" [(Term.app "In" [(Term.app "call" [extract1', (Term.sym "item")]), other_ids']), (Term.app "block" [(Term.app "yield" [(Term.sym "item")])]), (Term.app "block" [])])])]);
  Out.fall [eff0]

end DI.Gen

/-
  Generated/CodeC13.lean — REGENERATED on every run by harness/py2lean.py from the current source of
  /repo (symbolic execution of small control-flow functions; see Model/PyCore.lean).  Do not edit.
-/
import Model.PyCore

set_option linter.unusedVariables false

namespace DI.Gen

open DI.Py

/-- dataiter/data_frame.py: DataFrame.to_list_of_dicts (sha256 of the function source: e628478f08b40726) -/
def DataFrame_to_list_of_dicts (truth : Term → Bool) : Out :=
  let data' : Term := (Term.app "ListComp" [(Term.sym "{}"), (Term.app "in" [(Term.sym "i"), (Term.app "range" [(Term.app ".nrow" [(Term.sym "self")])]), (Term.app "if" [])])]);
  let eff0 : Term := (Term.app "for" [(Term.sym "colname"), (Term.app ".colnames" [(Term.sym "self")]), (Term.app "block" [(Term.app "for" [(Term.app "tuple" [(Term.sym "i"), (Term.sym "value")]), (Term.app "enumerate" [(Term.app ".tolist" [(Term.app "getitem" [(Term.sym "self"), (Term.sym "colname")])])]), (Term.app "block" [(Term.app "store" [(Term.app "getitem" [(Term.app "getitem" [data', (Term.sym "i")]), (Term.sym "colname")]), (Term.sym "value")])])])])]);
  Out.ret [eff0] (Term.app "ListOfDicts" [data'])

/-- the decorators of dataiter/data_frame.py: DataFrame.to_list_of_dicts, outermost first -/
def DataFrame_to_list_of_dicts_decorators : List String := []

/-- the signature of dataiter/data_frame.py: DataFrame.to_list_of_dicts: parameters in order, with the source text of their defaults -/
def DataFrame_to_list_of_dicts_signature : List String := ["self"]

/-- the calls of dataiter/data_frame.py: DataFrame.to_list_of_dicts in the order Python makes them along the source text -/
def DataFrame_to_list_of_dicts_call_order : List String := ["range", "self[colname].tolist", "enumerate", "ListOfDicts"]

/-- dataiter/data_frame.py: DataFrame.to_json (sha256 of the function source: 70a691eed957f53a) -/
def DataFrame_to_json (truth : Term → Bool) : Out :=
  Out.ret [] (Term.app ".to_json" [(Term.app ".to_list_of_dicts" [(Term.sym "self")]), (Term.app "=**" [(Term.sym "kwargs")])])

/-- the decorators of dataiter/data_frame.py: DataFrame.to_json, outermost first -/
def DataFrame_to_json_decorators : List String := []

/-- the signature of dataiter/data_frame.py: DataFrame.to_json: parameters in order, with the source text of their defaults -/
def DataFrame_to_json_signature : List String := ["self", "**kwargs"]

/-- the calls of dataiter/data_frame.py: DataFrame.to_json in the order Python makes them along the source text -/
def DataFrame_to_json_call_order : List String := ["self.to_list_of_dicts", "self.to_list_of_dicts().to_json"]

/-- dataiter/data_frame.py: DataFrame.to_pandas (sha256 of the function source: c6c79ba21785c2a9) -/
def DataFrame_to_pandas (truth : Term → Bool) : Out :=
  Out.ret [] (Term.app "pd.DataFrame" [(Term.app "DictComp" [(Term.app "pair" [(Term.sym "x"), (Term.app ".tolist" [(Term.app "getitem" [(Term.sym "self"), (Term.sym "x")])])]), (Term.app "in" [(Term.sym "x"), (Term.app ".colnames" [(Term.sym "self")]), (Term.app "if" [])])])])

/-- the decorators of dataiter/data_frame.py: DataFrame.to_pandas, outermost first -/
def DataFrame_to_pandas_decorators : List String := []

/-- the signature of dataiter/data_frame.py: DataFrame.to_pandas: parameters in order, with the source text of their defaults -/
def DataFrame_to_pandas_signature : List String := ["self"]

/-- the calls of dataiter/data_frame.py: DataFrame.to_pandas in the order Python makes them along the source text -/
def DataFrame_to_pandas_call_order : List String := ["self[x].tolist", "pd.DataFrame"]

/-- dataiter/data_frame.py: DataFrame.from_pandas (sha256 of the function source: 3effac14cf381913) -/
def DataFrame_from_pandas (truth : Term → Bool) : Out :=
  let eff0 : Term := (Term.app "for" [(Term.sym "name"), (Term.app ".columns" [(Term.sym "data")]), (Term.app "block" [(Term.app "assign" [(Term.sym "req_dtype"), (Term.app ".get" [(Term.sym "dtypes"), (Term.sym "name"), (Term.sym "None")])]), (Term.app "assign" [(Term.sym "na"), (Term.app ".to_numpy" [(Term.app ".isna" [(Term.app "getitem" [(Term.sym "data"), (Term.sym "name")])]), (Term.app "=copy" [(Term.sym "True")])])]), (Term.app "assign" [(Term.sym "column"), (Term.app ".to_numpy" [(Term.app "getitem" [(Term.sym "data"), (Term.sym "name")]), (Term.app "=copy" [(Term.sym "True")])])]), (Term.app "if" [(Term.app "np.issubdtype" [(Term.app ".dtype" [(Term.sym "column")]), (Term.sym "np.object_")]), (Term.app "block" [(Term.app "if" [(Term.app "Or" [(Term.app "Is" [(Term.sym "req_dtype"), (Term.sym "None")]), (Term.app "NotEq" [(Term.app "np.dtype" [(Term.sym "req_dtype")]), (Term.app "np.dtype" [(Term.sym "object")])])]), (Term.app "block" [(Term.app "assign" [(Term.sym "column"), (Term.app ".tolist" [(Term.sym "column")])])]), (Term.app "block" [])])]), (Term.app "block" [])]), (Term.app "assign" [(Term.sym "column"), (Term.app "DataFrameColumn.fast" [(Term.sym "column"), (Term.sym "req_dtype")])]), (Term.app "if" [(Term.app ".any" [(Term.sym "na")]), (Term.app "block" [(Term.app "if" [(Term.app "NotEq" [(Term.app ".dtype" [(Term.sym "column")]), (Term.app ".na_dtype" [(Term.sym "column")])]), (Term.app "block" [(Term.app "assign" [(Term.sym "column"), (Term.app ".astype" [(Term.sym "column"), (Term.app ".na_dtype" [(Term.sym "column")])])])]), (Term.app "block" [])]), (Term.app "store" [(Term.app "getitem" [(Term.sym "column"), (Term.sym "na")]), (Term.app ".na_value" [(Term.sym "column")])])]), (Term.app "block" [])]), (Term.app "yield" [(Term.app "tuple" [(Term.sym "name"), (Term.sym "column")])])])]);
  let req_dtype' : Term := (Term.app "value-after-loop" [(Term.sym "req_dtype"), eff0]);
  let na' : Term := (Term.app "value-after-loop" [(Term.sym "na"), eff0]);
  let column' : Term := (Term.app "value-after-loop" [(Term.sym "column"), eff0]);
  Out.fall [eff0]

/-- the decorators of dataiter/data_frame.py: DataFrame.from_pandas, outermost first -/
def DataFrame_from_pandas_decorators : List String := ["classmethod", "deco.new_from_generator"]

/-- the signature of dataiter/data_frame.py: DataFrame.from_pandas: parameters in order, with the source text of their defaults -/
def DataFrame_from_pandas_signature : List String := ["cls", "data", "*", "dtypes={}"]

/-- the calls of dataiter/data_frame.py: DataFrame.from_pandas in the order Python makes them along the source text -/
def DataFrame_from_pandas_call_order : List String := ["dtypes.get", "data[name].isna", "data[name].isna().to_numpy", "data[name].to_numpy", "np.issubdtype", "np.dtype", "np.dtype", "column.tolist", "DataFrameColumn.fast", "na.any", "column.astype"]

/-- dataiter/data_frame.py: DataFrame.to_arrow (sha256 of the function source: 17896240601b66d6) -/
def DataFrame_to_arrow (truth : Term → Bool) : Out :=
  let data' : Term := (Term.app "ListComp" [(Term.app "pa.array" [(Term.app ".tolist" [(Term.app "getitem" [(Term.sym "self"), (Term.sym "x")])])]), (Term.app "in" [(Term.sym "x"), (Term.app ".colnames" [(Term.sym "self")]), (Term.app "if" [])])]);
  Out.ret [] (Term.app "pa.table" [data', (Term.app "=names" [(Term.app ".colnames" [(Term.sym "self")])])])

/-- the decorators of dataiter/data_frame.py: DataFrame.to_arrow, outermost first -/
def DataFrame_to_arrow_decorators : List String := []

/-- the signature of dataiter/data_frame.py: DataFrame.to_arrow: parameters in order, with the source text of their defaults -/
def DataFrame_to_arrow_signature : List String := ["self"]

/-- the calls of dataiter/data_frame.py: DataFrame.to_arrow in the order Python makes them along the source text -/
def DataFrame_to_arrow_call_order : List String := ["self[x].tolist", "pa.array", "pa.table"]

/-- dataiter/data_frame.py: DataFrame.from_arrow (sha256 of the function source: 813efa0510a0d154) -/
def DataFrame_from_arrow (truth : Term → Bool) : Out :=
  let eff0 : Term := (Term.app "for" [(Term.app "tuple" [(Term.sym "name"), (Term.sym "column")]), (Term.app "zip" [(Term.app ".column_names" [(Term.sym "data")]), (Term.app ".columns" [(Term.sym "data")])]), (Term.app "block" [(Term.app "assign" [(Term.sym "req_dtype"), (Term.app ".get" [(Term.sym "dtypes"), (Term.sym "name"), (Term.sym "None")])]), (Term.app "assign" [(Term.sym "na"), (Term.app ".to_numpy" [(Term.app ".is_null" [(Term.sym "column"), (Term.app "=nan_is_null" [(Term.sym "True")])])])]), (Term.app "assign" [(Term.sym "column"), (Term.app ".to_numpy" [(Term.sym "column")])]), (Term.app "if" [(Term.app "np.issubdtype" [(Term.app ".dtype" [(Term.sym "column")]), (Term.sym "np.object_")]), (Term.app "block" [(Term.app "if" [(Term.app "Or" [(Term.app "Is" [(Term.sym "req_dtype"), (Term.sym "None")]), (Term.app "NotEq" [(Term.app "np.dtype" [(Term.sym "req_dtype")]), (Term.app "np.dtype" [(Term.sym "object")])])]), (Term.app "block" [(Term.app "assign" [(Term.sym "column"), (Term.app ".tolist" [(Term.sym "column")])])]), (Term.app "block" [])])]), (Term.app "block" [])]), (Term.app "assign" [(Term.sym "column"), (Term.app "DataFrameColumn.fast" [(Term.sym "column"), (Term.sym "req_dtype")])]), (Term.app "if" [(Term.app ".any" [(Term.sym "na")]), (Term.app "block" [(Term.app "if" [(Term.app "NotEq" [(Term.app ".dtype" [(Term.sym "column")]), (Term.app ".na_dtype" [(Term.sym "column")])]), (Term.app "block" [(Term.app "assign" [(Term.sym "column"), (Term.app ".astype" [(Term.sym "column"), (Term.app ".na_dtype" [(Term.sym "column")])])])]), (Term.app "block" [])]), (Term.app "store" [(Term.app "getitem" [(Term.sym "column"), (Term.sym "na")]), (Term.app ".na_value" [(Term.sym "column")])])]), (Term.app "block" [])]), (Term.app "yield" [(Term.app "tuple" [(Term.sym "name"), (Term.sym "column")])])])]);
  let req_dtype' : Term := (Term.app "value-after-loop" [(Term.sym "req_dtype"), eff0]);
  let na' : Term := (Term.app "value-after-loop" [(Term.sym "na"), eff0]);
  let column' : Term := (Term.app "value-after-loop" [(Term.sym "column"), eff0]);
  Out.fall [eff0]

/-- the decorators of dataiter/data_frame.py: DataFrame.from_arrow, outermost first -/
def DataFrame_from_arrow_decorators : List String := ["classmethod", "deco.new_from_generator"]

/-- the signature of dataiter/data_frame.py: DataFrame.from_arrow: parameters in order, with the source text of their defaults -/
def DataFrame_from_arrow_signature : List String := ["cls", "data", "*", "dtypes={}"]

/-- the calls of dataiter/data_frame.py: DataFrame.from_arrow in the order Python makes them along the source text -/
def DataFrame_from_arrow_call_order : List String := ["zip", "dtypes.get", "column.is_null", "column.is_null(nan_is_null=True).to_numpy", "column.to_numpy", "np.issubdtype", "np.dtype", "np.dtype", "column.tolist", "DataFrameColumn.fast", "na.any", "column.astype"]

/-- dataiter/list_of_dicts.py: ListOfDicts.to_data_frame (sha256 of the function source: 6056b7e29cffb98d) -/
def ListOfDicts_to_data_frame (truth : Term → Bool) : Out :=
  let data' : Term := (Term.app "._to_columns" [(Term.sym "self")]);
  Out.ret [] (Term.app "DataFrame" [(Term.app "=**" [data'])])

/-- the decorators of dataiter/list_of_dicts.py: ListOfDicts.to_data_frame, outermost first -/
def ListOfDicts_to_data_frame_decorators : List String := []

/-- the signature of dataiter/list_of_dicts.py: ListOfDicts.to_data_frame: parameters in order, with the source text of their defaults -/
def ListOfDicts_to_data_frame_signature : List String := ["self"]

/-- the calls of dataiter/list_of_dicts.py: ListOfDicts.to_data_frame in the order Python makes them along the source text -/
def ListOfDicts_to_data_frame_call_order : List String := ["self._to_columns", "DataFrame"]

/-- dataiter/list_of_dicts.py: ListOfDicts._to_columns (sha256 of the function source: b31a82caf1edeb0b) -/
def ListOfDicts_to_columns (truth : Term → Bool) : Out :=
  Out.ret [] (if truth (Term.sym "self") then (Term.app "DictComp" [(Term.app "pair" [(Term.sym "k"), (Term.app ".pluck" [(Term.sym "self"), (Term.sym "k")])]), (Term.app "in" [(Term.sym "k"), (Term.app "getitem" [(Term.sym "self"), (Term.int (0 : Int))]), (Term.app "if" [])])]) else (Term.sym "{}"))

/-- the decorators of dataiter/list_of_dicts.py: ListOfDicts._to_columns, outermost first -/
def ListOfDicts_to_columns_decorators : List String := []

/-- the signature of dataiter/list_of_dicts.py: ListOfDicts._to_columns: parameters in order, with the source text of their defaults -/
def ListOfDicts_to_columns_signature : List String := ["self"]

/-- the calls of dataiter/list_of_dicts.py: ListOfDicts._to_columns in the order Python makes them along the source text -/
def ListOfDicts_to_columns_call_order : List String := ["self.pluck"]

/-- dataiter/list_of_dicts.py: ListOfDicts.to_json (sha256 of the function source: a84596184c97e3dd) -/
def ListOfDicts_to_json (truth : Term → Bool) : Out :=
  let eff0 : Term := (Term.app ".setdefault" [(Term.sym "kwargs"), (Term.sym "'default'"), (Term.sym "str")]);
  let eff1 : Term := (Term.app ".setdefault" [(Term.sym "kwargs"), (Term.sym "'ensure_ascii'"), (Term.sym "False")]);
  let eff2 : Term := (Term.app ".setdefault" [(Term.sym "kwargs"), (Term.sym "'indent'"), (Term.int (2 : Int))]);
  Out.ret [eff0, eff1, eff2] (Term.app "json.dumps" [(Term.sym "self"), (Term.app "=**" [(Term.sym "kwargs")])])

/-- the decorators of dataiter/list_of_dicts.py: ListOfDicts.to_json, outermost first -/
def ListOfDicts_to_json_decorators : List String := []

/-- the signature of dataiter/list_of_dicts.py: ListOfDicts.to_json: parameters in order, with the source text of their defaults -/
def ListOfDicts_to_json_signature : List String := ["self", "**kwargs"]

/-- the calls of dataiter/list_of_dicts.py: ListOfDicts.to_json in the order Python makes them along the source text -/
def ListOfDicts_to_json_call_order : List String := ["kwargs.setdefault", "kwargs.setdefault", "kwargs.setdefault", "json.dumps"]

/-- dataiter/vector.py: Vector.tolist (sha256 of the function source: 6c6b05c5c3a558ee) -/
def Vector_tolist13 (truth : Term → Bool) : Out :=
  Out.ret [] (Term.app ".tolist" [(Term.app "np.where" [(Term.app ".is_na" [(Term.sym "self")]), (Term.sym "None"), (Term.sym "self")])])

/-- the decorators of dataiter/vector.py: Vector.tolist, outermost first -/
def Vector_tolist13_decorators : List String := []

/-- the signature of dataiter/vector.py: Vector.tolist: parameters in order, with the source text of their defaults -/
def Vector_tolist13_signature : List String := ["self"]

/-- the calls of dataiter/vector.py: Vector.tolist in the order Python makes them along the source text -/
def Vector_tolist13_call_order : List String := ["self.is_na", "np.where", "np.where(self.is_na(), None, self).tolist"]

/-- dataiter/list_of_dicts.py: ListOfDicts.to_pandas (sha256 of the function source: 146d8d725a87fae2) -/
def ListOfDicts_to_pandas (truth : Term → Bool) : Out :=
  Out.ret [] (Term.app "pd.DataFrame" [(Term.app "._to_columns" [(Term.sym "self")])])

/-- the decorators of dataiter/list_of_dicts.py: ListOfDicts.to_pandas, outermost first -/
def ListOfDicts_to_pandas_decorators : List String := []

/-- the signature of dataiter/list_of_dicts.py: ListOfDicts.to_pandas: parameters in order, with the source text of their defaults -/
def ListOfDicts_to_pandas_signature : List String := ["self"]

/-- the calls of dataiter/list_of_dicts.py: ListOfDicts.to_pandas in the order Python makes them along the source text -/
def ListOfDicts_to_pandas_call_order : List String := ["self._to_columns", "pd.DataFrame"]

/-- dataiter/geojson.py: GeoJSON.to_data_frame (sha256 of the function source: 4fc6608def8076f8) -/
def GeoJSON_to_data_frame (truth : Term → Bool) : Out :=
  let data' : Term := (Term.app "dict.copy" [(Term.sym "self")]);
  if truth (Term.sym "drop_geometry") then
    let eff0 : Term := (Term.app ".pop" [data', (Term.sym "'geometry'"), (Term.sym "None")]);
    Out.ret [eff0] (Term.app "DataFrame" [(Term.app "=**" [data'])])
  else
    Out.ret [] (Term.app "DataFrame" [(Term.app "=**" [data'])])

/-- the decorators of dataiter/geojson.py: GeoJSON.to_data_frame, outermost first -/
def GeoJSON_to_data_frame_decorators : List String := []

/-- the signature of dataiter/geojson.py: GeoJSON.to_data_frame: parameters in order, with the source text of their defaults -/
def GeoJSON_to_data_frame_signature : List String := ["self", "drop_geometry=False"]

/-- the calls of dataiter/geojson.py: GeoJSON.to_data_frame in the order Python makes them along the source text -/
def GeoJSON_to_data_frame_call_order : List String := ["dict.copy", "data.pop", "DataFrame"]

end DI.Gen

/-
  Generated/CodeC12.lean — REGENERATED on every run by harness/py2lean.py from the current source of
  /repo (symbolic execution of small control-flow functions; see Model/PyCore.lean).  Do not edit.
-/
import Model.PyCore

set_option linter.unusedVariables false

namespace DI.Gen

open DI.Py

/-- dataiter/util.py: xopen (sha256 of the function source: 1b4b5eddadc73de1) -/
def util_xopen (truth : Term → Bool) : Out :=
  if truth (Term.app "NotIn" [(Term.sym "'b'"), (Term.sym "mode")]) then
    let eff0 : Term := (Term.app ".setdefault" [(Term.sym "kwargs"), (Term.sym "'encoding'"), (Term.sym "'utf-8'")]);
    if truth (Term.app ".endswith" [(Term.app "str" [(Term.sym "path")]), (Term.sym "'.bz2'")]) then
      let eff1 : Term := (Term.app ".setdefault" [(Term.sym "kwargs"), (Term.sym "'compresslevel'"), (Term.int (6 : Int))]);
      Out.ret [eff0, eff1] (Term.app "bz2.open" [(Term.sym "path"), (Term.sym "mode"), (Term.app "=**" [(Term.sym "kwargs")])])
    else
      if truth (Term.app ".endswith" [(Term.app "str" [(Term.sym "path")]), (Term.sym "'.gz'")]) then
        let eff1 : Term := (Term.app ".setdefault" [(Term.sym "kwargs"), (Term.sym "'compresslevel'"), (Term.int (6 : Int))]);
        Out.ret [eff0, eff1] (Term.app "gzip.open" [(Term.sym "path"), (Term.sym "mode"), (Term.app "=**" [(Term.sym "kwargs")])])
      else
        if truth (Term.app ".endswith" [(Term.app "str" [(Term.sym "path")]), (Term.sym "'.xz'")]) then
          Out.ret [eff0] (Term.app "lzma.open" [(Term.sym "path"), (Term.sym "mode"), (Term.app "=**" [(Term.sym "kwargs")])])
        else
          Out.ret [eff0] (Term.app "open" [(Term.sym "path"), (Term.sym "mode"), (Term.app "=**" [(Term.sym "kwargs")])])
  else
    if truth (Term.app ".endswith" [(Term.app "str" [(Term.sym "path")]), (Term.sym "'.bz2'")]) then
      let eff0 : Term := (Term.app ".setdefault" [(Term.sym "kwargs"), (Term.sym "'compresslevel'"), (Term.int (6 : Int))]);
      Out.ret [eff0] (Term.app "bz2.open" [(Term.sym "path"), (Term.sym "mode"), (Term.app "=**" [(Term.sym "kwargs")])])
    else
      if truth (Term.app ".endswith" [(Term.app "str" [(Term.sym "path")]), (Term.sym "'.gz'")]) then
        let eff0 : Term := (Term.app ".setdefault" [(Term.sym "kwargs"), (Term.sym "'compresslevel'"), (Term.int (6 : Int))]);
        Out.ret [eff0] (Term.app "gzip.open" [(Term.sym "path"), (Term.sym "mode"), (Term.app "=**" [(Term.sym "kwargs")])])
      else
        if truth (Term.app ".endswith" [(Term.app "str" [(Term.sym "path")]), (Term.sym "'.xz'")]) then
          Out.ret [] (Term.app "lzma.open" [(Term.sym "path"), (Term.sym "mode"), (Term.app "=**" [(Term.sym "kwargs")])])
        else
          Out.ret [] (Term.app "open" [(Term.sym "path"), (Term.sym "mode"), (Term.app "=**" [(Term.sym "kwargs")])])

/-- the decorators of dataiter/util.py: xopen, outermost first -/
def util_xopen_decorators : List String := []

/-- the signature of dataiter/util.py: xopen: parameters in order, with the source text of their defaults -/
def util_xopen_signature : List String := ["path", "mode='r'", "**kwargs"]

end DI.Gen

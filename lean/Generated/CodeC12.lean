/-
  Generated/CodeC12.lean — REGENERATED on every run by harness/py2lean.py from the current source of
  /repo (symbolic execution of small control-flow functions; see Model/PyCore.lean).  Do not edit.
-/
import Model.PyCore

set_option linter.unusedVariables false

namespace DI.Gen

open DI.Py

/-- dataiter/util.py: xopen (sha256 of the function source: 1b4b5eddadc73de1) -/
def util_xopen (truth : Term → Bool) : Out :=
  if truth (Term.app "NotIn" [(Term.sym "'b'"), (Term.sym "mode")]) then
    let eff0 : Term := (Term.app ".setdefault" [(Term.sym "kwargs"), (Term.sym "'encoding'"), (Term.sym "'utf-8'")]);
    if truth (Term.app ".endswith" [(Term.app "str" [(Term.sym "path")]), (Term.sym "'.bz2'")]) then
      let eff1 : Term := (Term.app ".setdefault" [(Term.sym "kwargs"), (Term.sym "'compresslevel'"), (Term.int (6 : Int))]);
      Out.ret [eff0, eff1] (Term.app "bz2.open" [(Term.sym "path"), (Term.sym "mode"), (Term.app "=**" [(Term.sym "kwargs")])])
    else
      if truth (Term.app ".endswith" [(Term.app "str" [(Term.sym "path")]), (Term.sym "'.gz'")]) then
        let eff1 : Term := (Term.app ".setdefault" [(Term.sym "kwargs"), (Term.sym "'compresslevel'"), (Term.int (6 : Int))]);
        Out.ret [eff0, eff1] (Term.app "gzip.open" [(Term.sym "path"), (Term.sym "mode"), (Term.app "=**" [(Term.sym "kwargs")])])
      else
        if truth (Term.app ".endswith" [(Term.app "str" [(Term.sym "path")]), (Term.sym "'.xz'")]) then
          Out.ret [eff0] (Term.app "lzma.open" [(Term.sym "path"), (Term.sym "mode"), (Term.app "=**" [(Term.sym "kwargs")])])
        else
          Out.ret [eff0] (Term.app "open" [(Term.sym "path"), (Term.sym "mode"), (Term.app "=**" [(Term.sym "kwargs")])])
  else
    if truth (Term.app ".endswith" [(Term.app "str" [(Term.sym "path")]), (Term.sym "'.bz2'")]) then
      let eff0 : Term := (Term.app ".setdefault" [(Term.sym "kwargs"), (Term.sym "'compresslevel'"), (Term.int (6 : Int))]);
      Out.ret [eff0] (Term.app "bz2.open" [(Term.sym "path"), (Term.sym "mode"), (Term.app "=**" [(Term.sym "kwargs")])])
    else
      if truth (Term.app ".endswith" [(Term.app "str" [(Term.sym "path")]), (Term.sym "'.gz'")]) then
        let eff0 : Term := (Term.app ".setdefault" [(Term.sym "kwargs"), (Term.sym "'compresslevel'"), (Term.int (6 : Int))]);
        Out.ret [eff0] (Term.app "gzip.open" [(Term.sym "path"), (Term.sym "mode"), (Term.app "=**" [(Term.sym "kwargs")])])
      else
        if truth (Term.app ".endswith" [(Term.app "str" [(Term.sym "path")]), (Term.sym "'.xz'")]) then
          Out.ret [] (Term.app "lzma.open" [(Term.sym "path"), (Term.sym "mode"), (Term.app "=**" [(Term.sym "kwargs")])])
        else
          Out.ret [] (Term.app "open" [(Term.sym "path"), (Term.sym "mode"), (Term.app "=**" [(Term.sym "kwargs")])])

/-- the decorators of dataiter/util.py: xopen, outermost first -/
def util_xopen_decorators : List String := []

/-- the signature of dataiter/util.py: xopen: parameters in order, with the source text of their defaults -/
def util_xopen_signature : List String := ["path", "mode='r'", "**kwargs"]

/-- the calls of dataiter/util.py: xopen in the order Python makes them along the source text -/
def util_xopen_call_order : List String := ["kwargs.setdefault", "str", "str(path).endswith", "kwargs.setdefault", "bz2.open", "str", "str(path).endswith", "kwargs.setdefault", "gzip.open", "str", "str(path).endswith", "lzma.open", "open"]

/-- dataiter/data_frame.py: DataFrame.write_csv (sha256 of the function source: 4f9ea5601792ebd1) -/
def DataFrame_write_csv (truth : Term → Bool) : Out :=
  let table' : Term := (Term.app ".to_arrow" [(Term.sym "self")]);
  let eff0 : Term := (Term.app "util.makedirs_for_file" [(Term.sym "path")]);
  let eff1 : Term := (Term.app "with" [(Term.app "util.xopen" [(Term.sym "path"), (Term.sym "'wb'")])]);
  let eff2 : Term := (Term.app "csv.write_csv" [table', eff1, (Term.app "=write_options" [(Term.app "csv.WriteOptions" [(Term.app "=include_header" [(Term.sym "header")]), (Term.app "=delimiter" [(Term.sym "sep")]), (Term.app "=quoting_style" [(Term.sym "'needed'")])])])]);
  if truth (Term.app "NotEq" [(Term.app "codecs.lookup" [(Term.sym "encoding")]), (Term.app "codecs.lookup" [(Term.sym "'utf-8'")])]) then
    let eff3 : Term := (Term.app "with" [(Term.app "util.xopen" [(Term.sym "path"), (Term.sym "'rt'"), (Term.app "=encoding" [(Term.sym "'utf-8'")])])]);
    let text' : Term := (Term.app ".read" [eff3]);
    let eff4 : Term := (Term.app "with" [(Term.app "util.xopen" [(Term.sym "path"), (Term.sym "'wt'"), (Term.app "=encoding" [(Term.sym "encoding")])])]);
    let eff5 : Term := (Term.app ".write" [eff4, text']);
    Out.fall [eff0, eff1, eff2, eff3, eff4, eff5]
  else
    Out.fall [eff0, eff1, eff2]

/-- the decorators of dataiter/data_frame.py: DataFrame.write_csv, outermost first -/
def DataFrame_write_csv_decorators : List String := []

/-- the signature of dataiter/data_frame.py: DataFrame.write_csv: parameters in order, with the source text of their defaults -/
def DataFrame_write_csv_signature : List String := ["self", "path", "*", "encoding='utf-8'", "header=True", "sep=','"]

/-- the calls of dataiter/data_frame.py: DataFrame.write_csv in the order Python makes them along the source text -/
def DataFrame_write_csv_call_order : List String := ["self.to_arrow", "util.makedirs_for_file", "util.xopen", "csv.WriteOptions", "csv.write_csv", "codecs.lookup", "codecs.lookup", "util.xopen", "f.read", "util.xopen", "f.write"]

/-- dataiter/data_frame.py: DataFrame.write_json (sha256 of the function source: a6454a01f613f718) -/
def DataFrame_write_json (truth : Term → Bool) : Out :=
  Out.ret [] (Term.app ".write_json" [(Term.app ".to_list_of_dicts" [(Term.sym "self")]), (Term.sym "path"), (Term.app "=encoding" [(Term.sym "encoding")]), (Term.app "=**" [(Term.sym "kwargs")])])

/-- the decorators of dataiter/data_frame.py: DataFrame.write_json, outermost first -/
def DataFrame_write_json_decorators : List String := []

/-- the signature of dataiter/data_frame.py: DataFrame.write_json: parameters in order, with the source text of their defaults -/
def DataFrame_write_json_signature : List String := ["self", "path", "*", "encoding='utf-8'", "**kwargs"]

/-- the calls of dataiter/data_frame.py: DataFrame.write_json in the order Python makes them along the source text -/
def DataFrame_write_json_call_order : List String := ["self.to_list_of_dicts", "self.to_list_of_dicts().write_json"]

/-- dataiter/data_frame.py: DataFrame.write_npz (sha256 of the function source: ec29d9647c02c3b2) -/
def DataFrame_write_npz (truth : Term → Bool) : Out :=
  let eff0 : Term := (Term.app "util.makedirs_for_file" [(Term.sym "path")]);
  let savez' : Term := (if truth (Term.sym "compress") then (Term.sym "np.savez_compressed") else (Term.sym "np.savez"));
  let eff1 : Term := (Term.app "call" [savez', (Term.sym "path"), (Term.app "=**" [(Term.sym "self")])]);
  Out.fall [eff0, eff1]

/-- the decorators of dataiter/data_frame.py: DataFrame.write_npz, outermost first -/
def DataFrame_write_npz_decorators : List String := []

/-- the signature of dataiter/data_frame.py: DataFrame.write_npz: parameters in order, with the source text of their defaults -/
def DataFrame_write_npz_signature : List String := ["self", "path", "*", "compress=False"]

/-- the calls of dataiter/data_frame.py: DataFrame.write_npz in the order Python makes them along the source text -/
def DataFrame_write_npz_call_order : List String := ["util.makedirs_for_file", "savez"]

/-- dataiter/data_frame.py: DataFrame.read_npz (sha256 of the function source: f9bc74d2a12f89e4) -/
def DataFrame_read_npz (truth : Term → Bool) : Out :=
  let eff0 : Term := (Term.app "with" [(Term.app "np.load" [(Term.sym "path"), (Term.app "=allow_pickle" [(Term.sym "allow_pickle")])])]);
  Out.ret [eff0] (Term.app "cls" [(Term.app "=**" [eff0])])

/-- the decorators of dataiter/data_frame.py: DataFrame.read_npz, outermost first -/
def DataFrame_read_npz_decorators : List String := ["classmethod"]

/-- the signature of dataiter/data_frame.py: DataFrame.read_npz: parameters in order, with the source text of their defaults -/
def DataFrame_read_npz_signature : List String := ["cls", "path", "*", "allow_pickle=True"]

/-- the calls of dataiter/data_frame.py: DataFrame.read_npz in the order Python makes them along the source text -/
def DataFrame_read_npz_call_order : List String := ["np.load", "cls"]

/-- dataiter/data_frame.py: DataFrame.write_parquet (sha256 of the function source: 9e9dda72d6e8f2e6) -/
def DataFrame_write_parquet (truth : Term → Bool) : Out :=
  let data' : Term := (Term.app ".to_arrow" [(Term.sym "self")]);
  let eff0 : Term := (Term.app "util.makedirs_for_file" [(Term.sym "path")]);
  let eff1 : Term := (Term.app "pq.write_table" [data', (Term.sym "path"), (Term.app "=**" [(Term.sym "kwargs")])]);
  Out.fall [eff0, eff1]

/-- the decorators of dataiter/data_frame.py: DataFrame.write_parquet, outermost first -/
def DataFrame_write_parquet_decorators : List String := []

/-- the signature of dataiter/data_frame.py: DataFrame.write_parquet: parameters in order, with the source text of their defaults -/
def DataFrame_write_parquet_signature : List String := ["self", "path", "**kwargs"]

/-- the calls of dataiter/data_frame.py: DataFrame.write_parquet in the order Python makes them along the source text -/
def DataFrame_write_parquet_call_order : List String := ["self.to_arrow", "util.makedirs_for_file", "pq.write_table"]

/-- dataiter/data_frame.py: DataFrame.write_pickle (sha256 of the function source: 4a2fd8f9b42efb6b) -/
def DataFrame_write_pickle (truth : Term → Bool) : Out :=
  let eff0 : Term := (Term.app "util.makedirs_for_file" [(Term.sym "path")]);
  let eff1 : Term := (Term.app "with" [(Term.app "util.xopen" [(Term.sym "path"), (Term.sym "'wb'")])]);
  let out' : Term := (Term.app "DictComp" [(Term.app "pair" [(Term.sym "k"), (Term.app "np.array" [(Term.sym "v"), (Term.app ".dtype" [(Term.sym "v")])])]), (Term.app "in" [(Term.app "tuple" [(Term.sym "k"), (Term.sym "v")]), (Term.app ".items" [(Term.sym "self")]), (Term.app "if" [])])]);
  let eff2 : Term := (Term.app "pickle.dump" [out', eff1, (Term.sym "pickle.HIGHEST_PROTOCOL")]);
  Out.fall [eff0, eff1, eff2]

/-- the decorators of dataiter/data_frame.py: DataFrame.write_pickle, outermost first -/
def DataFrame_write_pickle_decorators : List String := []

/-- the signature of dataiter/data_frame.py: DataFrame.write_pickle: parameters in order, with the source text of their defaults -/
def DataFrame_write_pickle_signature : List String := ["self", "path"]

/-- the calls of dataiter/data_frame.py: DataFrame.write_pickle in the order Python makes them along the source text -/
def DataFrame_write_pickle_call_order : List String := ["util.makedirs_for_file", "util.xopen", "np.array", "self.items", "pickle.dump"]

/-- dataiter/data_frame.py: DataFrame.read_pickle (sha256 of the function source: d91bb1e64a6c829b) -/
def DataFrame_read_pickle (truth : Term → Bool) : Out :=
  let eff0 : Term := (Term.app "with" [(Term.app "util.xopen" [(Term.sym "path"), (Term.sym "'rb'")])]);
  Out.ret [eff0] (Term.app "cls" [(Term.app "pickle.load" [eff0])])

/-- the decorators of dataiter/data_frame.py: DataFrame.read_pickle, outermost first -/
def DataFrame_read_pickle_decorators : List String := ["classmethod"]

/-- the signature of dataiter/data_frame.py: DataFrame.read_pickle: parameters in order, with the source text of their defaults -/
def DataFrame_read_pickle_signature : List String := ["cls", "path"]

/-- the calls of dataiter/data_frame.py: DataFrame.read_pickle in the order Python makes them along the source text -/
def DataFrame_read_pickle_call_order : List String := ["util.xopen", "pickle.load", "cls"]

/-- dataiter/list_of_dicts.py: ListOfDicts.write_csv (sha256 of the function source: eb4d763f80c1737a) -/
def ListOfDicts_write_csv (truth : Term → Bool) : Out :=
  if (!truth (Term.sym "self")) then
    Out.raise [] "ValueError"
  else
    let keys' : Term := (Term.app "list()" [(Term.app ".keys" [(Term.sym "self")])]);
    let eff0 : Term := (Term.app "util.makedirs_for_file" [(Term.sym "path")]);
    let eff1 : Term := (Term.app "with" [(Term.app "util.xopen" [(Term.sym "path"), (Term.sym "'wt'"), (Term.app "=encoding" [(Term.sym "encoding")])])]);
    let writer' : Term := (Term.app "csv.DictWriter" [eff1, keys', (Term.app "=dialect" [(Term.sym "'unix'")]), (Term.app "=delimiter" [(Term.sym "sep")]), (Term.app "=quoting" [(Term.sym "csv.QUOTE_MINIMAL")])]);
    let eff2 : Term := (if truth (Term.sym "header") then (Term.app ".writeheader" [writer']) else (Term.sym "None"));
    let eff3 : Term := (Term.app "for" [(Term.sym "item"), (Term.sym "self"), (Term.app "block" [(Term.app "assign" [(Term.sym "item"), (Term.app "dict" [(Term.app "**" [(Term.app "dict.fromkeys" [keys'])]), (Term.app "**" [(Term.sym "item")])])]), (Term.app ".writerow" [writer', (Term.sym "item")])])]);
    let item' : Term := (Term.app "value-after-loop" [(Term.sym "item"), eff3]);
    Out.fall [eff0, eff1, eff2, eff3]

/-- the decorators of dataiter/list_of_dicts.py: ListOfDicts.write_csv, outermost first -/
def ListOfDicts_write_csv_decorators : List String := []

/-- the signature of dataiter/list_of_dicts.py: ListOfDicts.write_csv: parameters in order, with the source text of their defaults -/
def ListOfDicts_write_csv_signature : List String := ["self", "path", "*", "encoding='utf-8'", "header=True", "sep=','"]

/-- the calls of dataiter/list_of_dicts.py: ListOfDicts.write_csv in the order Python makes them along the source text -/
def ListOfDicts_write_csv_call_order : List String := ["ValueError", "self.keys", "list", "util.makedirs_for_file", "util.xopen", "csv.DictWriter", "writer.writeheader", "dict.fromkeys", "writer.writerow"]

/-- dataiter/list_of_dicts.py: ListOfDicts.write_json (sha256 of the function source: 97eb7406cf5131f7) -/
def ListOfDicts_write_json (truth : Term → Bool) : Out :=
  let eff0 : Term := (Term.app ".setdefault" [(Term.sym "kwargs"), (Term.sym "'default'"), (Term.sym "str")]);
  let eff1 : Term := (Term.app ".setdefault" [(Term.sym "kwargs"), (Term.sym "'ensure_ascii'"), (Term.sym "False")]);
  let eff2 : Term := (Term.app ".setdefault" [(Term.sym "kwargs"), (Term.sym "'indent'"), (Term.int (2 : Int))]);
  let eff3 : Term := (Term.app "util.makedirs_for_file" [(Term.sym "path")]);
  let eff4 : Term := (Term.app "with" [(Term.app "util.xopen" [(Term.sym "path"), (Term.sym "'wt'"), (Term.app "=encoding" [(Term.sym "encoding")])])]);
  let encoder' : Term := (Term.app "json.JSONEncoder" [(Term.app "=**" [(Term.sym "kwargs")])]);
  let eff5 : Term := (Term.app "for" [(Term.sym "chunk"), (Term.app ".iterencode" [encoder', (Term.sym "self")]), (Term.app "block" [(Term.app ".write" [eff4, (Term.sym "chunk")])])]);
  let eff6 : Term := (Term.app ".write" [eff4, (Term.sym "'\\n'")]);
  Out.fall [eff0, eff1, eff2, eff3, eff4, eff5, eff6]

/-- the decorators of dataiter/list_of_dicts.py: ListOfDicts.write_json, outermost first -/
def ListOfDicts_write_json_decorators : List String := []

/-- the signature of dataiter/list_of_dicts.py: ListOfDicts.write_json: parameters in order, with the source text of their defaults -/
def ListOfDicts_write_json_signature : List String := ["self", "path", "*", "encoding='utf-8'", "**kwargs"]

/-- the calls of dataiter/list_of_dicts.py: ListOfDicts.write_json in the order Python makes them along the source text -/
def ListOfDicts_write_json_call_order : List String := ["kwargs.setdefault", "kwargs.setdefault", "kwargs.setdefault", "util.makedirs_for_file", "util.xopen", "json.JSONEncoder", "encoder.iterencode", "f.write", "f.write"]

/-- dataiter/list_of_dicts.py: ListOfDicts.write_pickle (sha256 of the function source: 06df17b07ca89616) -/
def ListOfDicts_write_pickle (truth : Term → Bool) : Out :=
  let eff0 : Term := (Term.app "util.makedirs_for_file" [(Term.sym "path")]);
  let eff1 : Term := (Term.app "with" [(Term.app "util.xopen" [(Term.sym "path"), (Term.sym "'wb'")])]);
  let out' : Term := (Term.app "ListComp" [(Term.app "dict()" [(Term.sym "x")]), (Term.app "in" [(Term.sym "x"), (Term.sym "self"), (Term.app "if" [])])]);
  let eff2 : Term := (Term.app "pickle.dump" [out', eff1, (Term.sym "pickle.HIGHEST_PROTOCOL")]);
  Out.fall [eff0, eff1, eff2]

/-- the decorators of dataiter/list_of_dicts.py: ListOfDicts.write_pickle, outermost first -/
def ListOfDicts_write_pickle_decorators : List String := []

/-- the signature of dataiter/list_of_dicts.py: ListOfDicts.write_pickle: parameters in order, with the source text of their defaults -/
def ListOfDicts_write_pickle_signature : List String := ["self", "path"]

/-- the calls of dataiter/list_of_dicts.py: ListOfDicts.write_pickle in the order Python makes them along the source text -/
def ListOfDicts_write_pickle_call_order : List String := ["util.makedirs_for_file", "util.xopen", "dict", "pickle.dump"]

/-- dataiter/list_of_dicts.py: ListOfDicts.read_pickle (sha256 of the function source: 40aaf035a2033dcf) -/
def ListOfDicts_read_pickle (truth : Term → Bool) : Out :=
  let eff0 : Term := (Term.app "with" [(Term.app "util.xopen" [(Term.sym "path"), (Term.sym "'rb'")])]);
  Out.ret [eff0] (Term.app "cls" [(Term.app "pickle.load" [eff0])])

/-- the decorators of dataiter/list_of_dicts.py: ListOfDicts.read_pickle, outermost first -/
def ListOfDicts_read_pickle_decorators : List String := ["classmethod"]

/-- the signature of dataiter/list_of_dicts.py: ListOfDicts.read_pickle: parameters in order, with the source text of their defaults -/
def ListOfDicts_read_pickle_signature : List String := ["cls", "path"]

/-- the calls of dataiter/list_of_dicts.py: ListOfDicts.read_pickle in the order Python makes them along the source text -/
def ListOfDicts_read_pickle_call_order : List String := ["util.xopen", "pickle.load", "cls"]

/-- dataiter/util.py: makedirs_for_file (sha256 of the function source: de66d0a817882778) -/
def util_makedirs_for_file (truth : Term → Bool) : Out :=
  Out.ret [] (Term.app ".mkdir" [(Term.app ".parent" [(Term.app "Path" [(Term.sym "path")])]), (Term.app "=parents" [(Term.sym "True")]), (Term.app "=exist_ok" [(Term.sym "True")])])

/-- the decorators of dataiter/util.py: makedirs_for_file, outermost first -/
def util_makedirs_for_file_decorators : List String := []

/-- the signature of dataiter/util.py: makedirs_for_file: parameters in order, with the source text of their defaults -/
def util_makedirs_for_file_signature : List String := ["path"]

/-- the calls of dataiter/util.py: makedirs_for_file in the order Python makes them along the source text -/
def util_makedirs_for_file_call_order : List String := ["Path", "Path(path).parent.mkdir"]

end DI.Gen

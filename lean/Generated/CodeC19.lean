/-
  Generated/CodeC19.lean — REGENERATED on every run by harness/py2lean.py from the current source of
  /repo (symbolic execution of small control-flow functions; see Model/PyCore.lean).  Do not edit.
-/
import Model.PyCore

set_option linter.unusedVariables false

namespace DI.Gen

open DI.Py

/-- dataiter/regex.py: _prep (sha256 of the function source: d0aa8ca5350da771) -/
def regex_prep (truth : Term → Bool) : Out :=
  let eff0 : Term := (Term.app "assert" [(Term.app "isinstance" [(Term.sym "string"), (Term.sym "np.ndarray")])]);
  let eff1 : Term := (Term.app "assert" [(Term.app "isinstance" [(Term.app ".dtype" [(Term.sym "string")]), (Term.sym "StringDType")])]);
  let out' : Term := (Term.app "np.full_like" [(Term.sym "string"), (Term.sym "default"), (Term.sym "dtype")]);
  let na' : Term := (Term.app "Eq" [(Term.sym "string"), (Term.sym "dtypes.string.na_object")]);
  Out.ret [eff0, eff1] (Term.app "tuple" [out', na'])

/-- the decorators of dataiter/regex.py: _prep, outermost first -/
def regex_prep_decorators : List String := []

/-- the signature of dataiter/regex.py: _prep: parameters in order, with the source text of their defaults -/
def regex_prep_signature : List String := ["string", "dtype", "default"]

/-- the calls of dataiter/regex.py: _prep in the order Python makes them along the source text -/
def regex_prep_call_order : List String := ["isinstance", "isinstance", "np.full_like"]

/-- dataiter/regex.py: findall (sha256 of the function source: 4902cc55f73494f2) -/
def regex_findall (truth : Term → Bool) : Out :=
  if truth (Term.app "util.is_scalar" [(Term.sym "string")]) then
    Out.ret [] (Term.app "re.findall" [(Term.sym "pattern"), (Term.sym "string"), (Term.app "=flags" [(Term.sym "flags")])])
  else
    let tup0_2' : Term := (Term.app "_prep" [(Term.sym "string"), (Term.sym "object"), (Term.sym "None")]);
    let out' : Term := (Term.app "item0" [tup0_2']);
    let na' : Term := (Term.app "item1" [tup0_2']);
    let eff0 : Term := (Term.app "for" [(Term.sym "i"), (Term.app "np.flatnonzero" [(Term.app "~" [na'])]), (Term.app "block" [(Term.app "store" [(Term.app "getitem" [out', (Term.sym "i")]), (Term.app "re.findall" [(Term.sym "pattern"), (Term.app "getitem" [(Term.sym "string"), (Term.sym "i")]), (Term.app "=flags" [(Term.sym "flags")])])])])]);
    Out.ret [eff0] (Term.app "Vector.fast" [out', (Term.sym "object")])

/-- the decorators of dataiter/regex.py: findall, outermost first -/
def regex_findall_decorators : List String := []

/-- the signature of dataiter/regex.py: findall: parameters in order, with the source text of their defaults -/
def regex_findall_signature : List String := ["pattern", "string", "flags=0"]

/-- the calls of dataiter/regex.py: findall in the order Python makes them along the source text -/
def regex_findall_call_order : List String := ["util.is_scalar", "re.findall", "_prep", "np.flatnonzero", "re.findall", "Vector.fast"]

/-- dataiter/regex.py: fullmatch (sha256 of the function source: ec51428baae53866) -/
def regex_fullmatch (truth : Term → Bool) : Out :=
  if truth (Term.app "util.is_scalar" [(Term.sym "string")]) then
    Out.ret [] (Term.app "re.fullmatch" [(Term.sym "pattern"), (Term.sym "string"), (Term.app "=flags" [(Term.sym "flags")])])
  else
    let tup0_2' : Term := (Term.app "_prep" [(Term.sym "string"), (Term.sym "object"), (Term.sym "None")]);
    let out' : Term := (Term.app "item0" [tup0_2']);
    let na' : Term := (Term.app "item1" [tup0_2']);
    let eff0 : Term := (Term.app "for" [(Term.sym "i"), (Term.app "np.flatnonzero" [(Term.app "~" [na'])]), (Term.app "block" [(Term.app "store" [(Term.app "getitem" [out', (Term.sym "i")]), (Term.app "re.fullmatch" [(Term.sym "pattern"), (Term.app "getitem" [(Term.sym "string"), (Term.sym "i")]), (Term.app "=flags" [(Term.sym "flags")])])])])]);
    Out.ret [eff0] (Term.app "Vector.fast" [out', (Term.sym "object")])

/-- the decorators of dataiter/regex.py: fullmatch, outermost first -/
def regex_fullmatch_decorators : List String := []

/-- the signature of dataiter/regex.py: fullmatch: parameters in order, with the source text of their defaults -/
def regex_fullmatch_signature : List String := ["pattern", "string", "flags=0"]

/-- the calls of dataiter/regex.py: fullmatch in the order Python makes them along the source text -/
def regex_fullmatch_call_order : List String := ["util.is_scalar", "re.fullmatch", "_prep", "np.flatnonzero", "re.fullmatch", "Vector.fast"]

/-- dataiter/regex.py: match (sha256 of the function source: c6e925bac0647769) -/
def regex_match (truth : Term → Bool) : Out :=
  if truth (Term.app "util.is_scalar" [(Term.sym "string")]) then
    Out.ret [] (Term.app "re.match" [(Term.sym "pattern"), (Term.sym "string"), (Term.app "=flags" [(Term.sym "flags")])])
  else
    let tup0_2' : Term := (Term.app "_prep" [(Term.sym "string"), (Term.sym "object"), (Term.sym "None")]);
    let out' : Term := (Term.app "item0" [tup0_2']);
    let na' : Term := (Term.app "item1" [tup0_2']);
    let eff0 : Term := (Term.app "for" [(Term.sym "i"), (Term.app "np.flatnonzero" [(Term.app "~" [na'])]), (Term.app "block" [(Term.app "store" [(Term.app "getitem" [out', (Term.sym "i")]), (Term.app "re.match" [(Term.sym "pattern"), (Term.app "getitem" [(Term.sym "string"), (Term.sym "i")]), (Term.app "=flags" [(Term.sym "flags")])])])])]);
    Out.ret [eff0] (Term.app "Vector.fast" [out', (Term.sym "object")])

/-- the decorators of dataiter/regex.py: match, outermost first -/
def regex_match_decorators : List String := []

/-- the signature of dataiter/regex.py: match: parameters in order, with the source text of their defaults -/
def regex_match_signature : List String := ["pattern", "string", "flags=0"]

/-- the calls of dataiter/regex.py: match in the order Python makes them along the source text -/
def regex_match_call_order : List String := ["util.is_scalar", "re.match", "_prep", "np.flatnonzero", "re.match", "Vector.fast"]

/-- dataiter/regex.py: search (sha256 of the function source: 12b06671de6cfb13) -/
def regex_search (truth : Term → Bool) : Out :=
  if truth (Term.app "util.is_scalar" [(Term.sym "string")]) then
    Out.ret [] (Term.app "re.search" [(Term.sym "pattern"), (Term.sym "string"), (Term.app "=flags" [(Term.sym "flags")])])
  else
    let tup0_2' : Term := (Term.app "_prep" [(Term.sym "string"), (Term.sym "object"), (Term.sym "None")]);
    let out' : Term := (Term.app "item0" [tup0_2']);
    let na' : Term := (Term.app "item1" [tup0_2']);
    let eff0 : Term := (Term.app "for" [(Term.sym "i"), (Term.app "np.flatnonzero" [(Term.app "~" [na'])]), (Term.app "block" [(Term.app "store" [(Term.app "getitem" [out', (Term.sym "i")]), (Term.app "re.search" [(Term.sym "pattern"), (Term.app "getitem" [(Term.sym "string"), (Term.sym "i")]), (Term.app "=flags" [(Term.sym "flags")])])])])]);
    Out.ret [eff0] (Term.app "Vector.fast" [out', (Term.sym "object")])

/-- the decorators of dataiter/regex.py: search, outermost first -/
def regex_search_decorators : List String := []

/-- the signature of dataiter/regex.py: search: parameters in order, with the source text of their defaults -/
def regex_search_signature : List String := ["pattern", "string", "flags=0"]

/-- the calls of dataiter/regex.py: search in the order Python makes them along the source text -/
def regex_search_call_order : List String := ["util.is_scalar", "re.search", "_prep", "np.flatnonzero", "re.search", "Vector.fast"]

/-- dataiter/regex.py: split (sha256 of the function source: 8ef049b1a9914292) -/
def regex_split (truth : Term → Bool) : Out :=
  if truth (Term.app "util.is_scalar" [(Term.sym "string")]) then
    Out.ret [] (Term.app "re.split" [(Term.sym "pattern"), (Term.sym "string"), (Term.app "=maxsplit" [(Term.sym "maxsplit")]), (Term.app "=flags" [(Term.sym "flags")])])
  else
    let tup0_2' : Term := (Term.app "_prep" [(Term.sym "string"), (Term.sym "object"), (Term.sym "None")]);
    let out' : Term := (Term.app "item0" [tup0_2']);
    let na' : Term := (Term.app "item1" [tup0_2']);
    let eff0 : Term := (Term.app "for" [(Term.sym "i"), (Term.app "np.flatnonzero" [(Term.app "~" [na'])]), (Term.app "block" [(Term.app "store" [(Term.app "getitem" [out', (Term.sym "i")]), (Term.app "re.split" [(Term.sym "pattern"), (Term.app "getitem" [(Term.sym "string"), (Term.sym "i")]), (Term.app "=maxsplit" [(Term.sym "maxsplit")]), (Term.app "=flags" [(Term.sym "flags")])])])])]);
    Out.ret [eff0] (Term.app "Vector.fast" [out', (Term.sym "object")])

/-- the decorators of dataiter/regex.py: split, outermost first -/
def regex_split_decorators : List String := []

/-- the signature of dataiter/regex.py: split: parameters in order, with the source text of their defaults -/
def regex_split_signature : List String := ["pattern", "string", "maxsplit=0", "flags=0"]

/-- the calls of dataiter/regex.py: split in the order Python makes them along the source text -/
def regex_split_call_order : List String := ["util.is_scalar", "re.split", "_prep", "np.flatnonzero", "re.split", "Vector.fast"]

/-- dataiter/regex.py: sub (sha256 of the function source: a357078e3cf50bcf) -/
def regex_sub (truth : Term → Bool) : Out :=
  if truth (Term.app "util.is_scalar" [(Term.sym "string")]) then
    Out.ret [] (Term.app "re.sub" [(Term.sym "pattern"), (Term.sym "repl"), (Term.sym "string"), (Term.app "=count" [(Term.sym "count")]), (Term.app "=flags" [(Term.sym "flags")])])
  else
    let tup0_2' : Term := (Term.app "_prep" [(Term.sym "string"), (Term.sym "dtypes.string"), (Term.sym "dtypes.string.na_object")]);
    let out' : Term := (Term.app "item0" [tup0_2']);
    let na' : Term := (Term.app "item1" [tup0_2']);
    let eff0 : Term := (Term.app "for" [(Term.sym "i"), (Term.app "np.flatnonzero" [(Term.app "~" [na'])]), (Term.app "block" [(Term.app "store" [(Term.app "getitem" [out', (Term.sym "i")]), (Term.app "re.sub" [(Term.sym "pattern"), (Term.sym "repl"), (Term.app "getitem" [(Term.sym "string"), (Term.sym "i")]), (Term.app "=count" [(Term.sym "count")]), (Term.app "=flags" [(Term.sym "flags")])])])])]);
    Out.ret [eff0] (Term.app "Vector.fast" [out', (Term.sym "str")])

/-- the decorators of dataiter/regex.py: sub, outermost first -/
def regex_sub_decorators : List String := []

/-- the signature of dataiter/regex.py: sub: parameters in order, with the source text of their defaults -/
def regex_sub_signature : List String := ["pattern", "repl", "string", "count=0", "flags=0"]

/-- the calls of dataiter/regex.py: sub in the order Python makes them along the source text -/
def regex_sub_call_order : List String := ["util.is_scalar", "re.sub", "_prep", "np.flatnonzero", "re.sub", "Vector.fast"]

/-- dataiter/regex.py: subn (sha256 of the function source: 7393a5bff2ee5411) -/
def regex_subn (truth : Term → Bool) : Out :=
  if truth (Term.app "util.is_scalar" [(Term.sym "string")]) then
    Out.ret [] (Term.app "re.subn" [(Term.sym "pattern"), (Term.sym "repl"), (Term.sym "string"), (Term.app "=count" [(Term.sym "count")]), (Term.app "=flags" [(Term.sym "flags")])])
  else
    let tup0_2' : Term := (Term.app "_prep" [(Term.sym "string"), (Term.sym "object"), (Term.sym "None")]);
    let out' : Term := (Term.app "item0" [tup0_2']);
    let na' : Term := (Term.app "item1" [tup0_2']);
    let eff0 : Term := (Term.app "for" [(Term.sym "i"), (Term.app "np.flatnonzero" [(Term.app "~" [na'])]), (Term.app "block" [(Term.app "store" [(Term.app "getitem" [out', (Term.sym "i")]), (Term.app "re.subn" [(Term.sym "pattern"), (Term.sym "repl"), (Term.app "getitem" [(Term.sym "string"), (Term.sym "i")]), (Term.app "=count" [(Term.sym "count")]), (Term.app "=flags" [(Term.sym "flags")])])])])]);
    Out.ret [eff0] (Term.app "Vector.fast" [out', (Term.sym "object")])

/-- the decorators of dataiter/regex.py: subn, outermost first -/
def regex_subn_decorators : List String := []

/-- the signature of dataiter/regex.py: subn: parameters in order, with the source text of their defaults -/
def regex_subn_signature : List String := ["pattern", "repl", "string", "count=0", "flags=0"]

/-- the calls of dataiter/regex.py: subn in the order Python makes them along the source text -/
def regex_subn_call_order : List String := ["util.is_scalar", "re.subn", "_prep", "np.flatnonzero", "re.subn", "Vector.fast"]

/-- dataiter/dt.py: _pull_int (sha256 of the function source: e730627818a8e6fd) -/
def dt_pull_int (truth : Term → Bool) : Out :=
  if truth (Term.app "util.is_scalar" [(Term.sym "x")]) then
    let x' : Term := (Term.app "Vector" [(Term.app "list" [(Term.sym "x")]), (Term.sym "np.datetime64")]);
    Out.ret [] (Term.app "getitem" [(Term.app "_pull_int" [x', (Term.sym "function")]), (Term.int (0 : Int))])
  else
    let eff0 : Term := (Term.app "assert" [(Term.app "isinstance" [(Term.sym "x"), (Term.sym "np.ndarray")])]);
    let eff1 : Term := (Term.app "assert" [(Term.app "np.issubdtype" [(Term.app ".dtype" [(Term.sym "x")]), (Term.sym "np.datetime64")])]);
    let out' : Term := (Term.app "np.full_like" [(Term.sym "x"), (Term.sym "np.nan"), (Term.sym "float")]);
    let out' : Term := (Term.app "Vector.fast" [out', (Term.sym "float")]);
    let na' : Term := (Term.app "np.isnat" [(Term.sym "x")]);
    if truth (Term.app ".all" [na']) then
      Out.ret [eff0, eff1] out'
    else
      let f' : Term := (Term.app "np.vectorize" [(Term.sym "function")]);
      let eff2 : Term := (Term.app "store" [(Term.app "getitem" [out', (Term.app "~" [na'])]), (Term.app "call" [f', (Term.app ".astype" [(Term.app "getitem" [(Term.sym "x"), (Term.app "~" [na'])]), (Term.sym "object")])])]);
      Out.ret [eff0, eff1, eff2] (if truth (Term.app ".any" [na']) then out' else (Term.app ".as_integer" [out']))

/-- the decorators of dataiter/dt.py: _pull_int, outermost first -/
def dt_pull_int_decorators : List String := []

/-- the signature of dataiter/dt.py: _pull_int: parameters in order, with the source text of their defaults -/
def dt_pull_int_signature : List String := ["x", "function"]

/-- the calls of dataiter/dt.py: _pull_int in the order Python makes them along the source text -/
def dt_pull_int_call_order : List String := ["util.is_scalar", "Vector", "_pull_int", "isinstance", "np.issubdtype", "np.full_like", "Vector.fast", "np.isnat", "na.all", "np.vectorize", "x[~na].astype", "f", "na.any", "out.as_integer"]

/-- dataiter/dt.py: _pull_str (sha256 of the function source: 0ace260099d3c2a1) -/
def dt_pull_str (truth : Term → Bool) : Out :=
  if truth (Term.app "util.is_scalar" [(Term.sym "x")]) then
    let x' : Term := (Term.app "Vector" [(Term.app "list" [(Term.sym "x")]), (Term.sym "np.datetime64")]);
    Out.ret [] (Term.app "getitem" [(Term.app "_pull_str" [x', (Term.sym "function")]), (Term.int (0 : Int))])
  else
    let eff0 : Term := (Term.app "assert" [(Term.app "isinstance" [(Term.sym "x"), (Term.sym "np.ndarray")])]);
    let eff1 : Term := (Term.app "assert" [(Term.app "np.issubdtype" [(Term.app ".dtype" [(Term.sym "x")]), (Term.sym "np.datetime64")])]);
    let out' : Term := (Term.app "np.full_like" [(Term.sym "x"), (Term.sym "dtypes.string.na_object"), (Term.sym "object")]);
    let out' : Term := (Term.app "Vector.fast" [out', (Term.sym "object")]);
    let na' : Term := (Term.app "np.isnat" [(Term.sym "x")]);
    if truth (Term.app ".all" [na']) then
      Out.ret [eff0, eff1] (Term.app ".as_string" [out'])
    else
      let f' : Term := (Term.app "np.vectorize" [(Term.sym "function")]);
      let eff2 : Term := (Term.app "store" [(Term.app "getitem" [out', (Term.app "~" [na'])]), (Term.app "call" [f', (Term.app ".astype" [(Term.app "getitem" [(Term.sym "x"), (Term.app "~" [na'])]), (Term.sym "object")])])]);
      Out.ret [eff0, eff1, eff2] (Term.app ".as_string" [out'])

/-- the decorators of dataiter/dt.py: _pull_str, outermost first -/
def dt_pull_str_decorators : List String := []

/-- the signature of dataiter/dt.py: _pull_str: parameters in order, with the source text of their defaults -/
def dt_pull_str_signature : List String := ["x", "function"]

/-- the calls of dataiter/dt.py: _pull_str in the order Python makes them along the source text -/
def dt_pull_str_call_order : List String := ["util.is_scalar", "Vector", "_pull_str", "isinstance", "np.issubdtype", "np.full_like", "Vector.fast", "np.isnat", "na.all", "out.as_string", "np.vectorize", "x[~na].astype", "f", "out.as_string"]

/-- dataiter/dt.py: _pull_datetime (sha256 of the function source: b450a177d6bbe7de) -/
def dt_pull_datetime (truth : Term → Bool) : Out :=
  if truth (Term.app "util.is_scalar" [(Term.sym "x")]) then
    let x' : Term := (Term.app "Vector" [(Term.app "list" [(Term.sym "x")]), (Term.sym "np.datetime64")]);
    Out.ret [] (Term.app "getitem" [(Term.app "_pull_datetime" [x', (Term.sym "function")]), (Term.int (0 : Int))])
  else
    let eff0 : Term := (Term.app "assert" [(Term.app "isinstance" [(Term.sym "x"), (Term.sym "np.ndarray")])]);
    let eff1 : Term := (Term.app "assert" [(Term.app "np.issubdtype" [(Term.app ".dtype" [(Term.sym "x")]), (Term.sym "np.datetime64")])]);
    let out' : Term := (Term.app "np.full_like" [(Term.sym "x"), (Term.sym "np.nan")]);
    let out' : Term := (Term.app "Vector.fast" [out', (Term.sym "np.datetime64")]);
    let na' : Term := (Term.app "np.isnat" [(Term.sym "x")]);
    if truth (Term.app ".all" [na']) then
      Out.ret [eff0, eff1] out'
    else
      let f' : Term := (Term.app "np.vectorize" [(Term.sym "function")]);
      let eff2 : Term := (Term.app "store" [(Term.app "getitem" [out', (Term.app "~" [na'])]), (Term.app "call" [f', (Term.app ".astype" [(Term.app "getitem" [(Term.sym "x"), (Term.app "~" [na'])]), (Term.sym "object")])])]);
      Out.ret [eff0, eff1, eff2] out'

/-- the decorators of dataiter/dt.py: _pull_datetime, outermost first -/
def dt_pull_datetime_decorators : List String := []

/-- the signature of dataiter/dt.py: _pull_datetime: parameters in order, with the source text of their defaults -/
def dt_pull_datetime_signature : List String := ["x", "function"]

/-- the calls of dataiter/dt.py: _pull_datetime in the order Python makes them along the source text -/
def dt_pull_datetime_call_order : List String := ["util.is_scalar", "Vector", "_pull_datetime", "isinstance", "np.issubdtype", "np.full_like", "Vector.fast", "np.isnat", "na.all", "np.vectorize", "x[~na].astype", "f"]

/-- dataiter/dt.py: to_string (sha256 of the function source: b9b05e2e2af69566) -/
def dt_to_string (truth : Term → Bool) : Out :=
  Out.ret [] (Term.app "_pull_str" [(Term.sym "x"), (Term.app "lambda" [(Term.app "params" [(Term.sym "x")]), (Term.app ".strftime" [(Term.sym "x"), (Term.sym "format")])])])

/-- the decorators of dataiter/dt.py: to_string, outermost first -/
def dt_to_string_decorators : List String := []

/-- the signature of dataiter/dt.py: to_string: parameters in order, with the source text of their defaults -/
def dt_to_string_signature : List String := ["x", "format"]

/-- the calls of dataiter/dt.py: to_string in the order Python makes them along the source text -/
def dt_to_string_call_order : List String := ["_pull_str"]

/-- dataiter/dt.py: from_string (sha256 of the function source: 14a94c6c4b66d16c) -/
def dt_from_string (truth : Term → Bool) : Out :=
  if truth (Term.app "util.is_scalar" [(Term.sym "x")]) then
    let x' : Term := (Term.app "Vector" [(Term.app "list" [(Term.sym "x")]), (Term.sym "str")]);
    Out.ret [] (Term.app "getitem" [(Term.app "from_string" [x', (Term.sym "format")]), (Term.int (0 : Int))])
  else
    let eff0 : Term := (Term.app "assert" [(Term.app "isinstance" [(Term.sym "x"), (Term.sym "np.ndarray")])]);
    let eff1 : Term := (Term.app "assert" [(Term.app "isinstance" [(Term.app ".dtype" [(Term.sym "x")]), (Term.sym "StringDType")])]);
    let out' : Term := (Term.app "np.full_like" [(Term.sym "x"), (Term.sym "None"), (Term.sym "object")]);
    let out' : Term := (Term.app "Vector.fast" [out', (Term.sym "object")]);
    let na' : Term := (Term.app "Eq" [(Term.sym "x"), (Term.sym "dtypes.string.na_object")]);
    if (!truth (Term.app ".all" [na'])) then
      let f' : Term := (Term.app "np.vectorize" [(Term.app "lambda" [(Term.app "params" [(Term.sym "x")]), (Term.app "datetime.datetime.strptime" [(Term.sym "x"), (Term.sym "format")])])]);
      let eff2 : Term := (Term.app "store" [(Term.app "getitem" [out', (Term.app "~" [na'])]), (Term.app "call" [f', (Term.app ".astype" [(Term.app "getitem" [(Term.sym "x"), (Term.app "~" [na'])]), (Term.sym "object")])])]);
      let out' : Term := (Term.app ".as_datetime" [out']);
      if (truth (Term.app "Gt" [(Term.app "len" [(Term.app "getitem" [out', (Term.app "~" [na'])])]), (Term.int (0 : Int))]) && truth (Term.app ".all" [(Term.app "Eq" [(Term.app "hour" [(Term.app "getitem" [out', (Term.app "~" [na'])])]), (Term.int (0 : Int))])]) && truth (Term.app ".all" [(Term.app "Eq" [(Term.app "minute" [(Term.app "getitem" [out', (Term.app "~" [na'])])]), (Term.int (0 : Int))])]) && truth (Term.app ".all" [(Term.app "Eq" [(Term.app "second" [(Term.app "getitem" [out', (Term.app "~" [na'])])]), (Term.int (0 : Int))])])) then
        let out' : Term := (Term.app ".as_date" [out']);
        Out.ret [eff0, eff1, eff2] out'
      else
        Out.ret [eff0, eff1, eff2] out'
    else
      let out' : Term := (Term.app ".as_datetime" [out']);
      if (truth (Term.app "Gt" [(Term.app "len" [(Term.app "getitem" [out', (Term.app "~" [na'])])]), (Term.int (0 : Int))]) && truth (Term.app ".all" [(Term.app "Eq" [(Term.app "hour" [(Term.app "getitem" [out', (Term.app "~" [na'])])]), (Term.int (0 : Int))])]) && truth (Term.app ".all" [(Term.app "Eq" [(Term.app "minute" [(Term.app "getitem" [out', (Term.app "~" [na'])])]), (Term.int (0 : Int))])]) && truth (Term.app ".all" [(Term.app "Eq" [(Term.app "second" [(Term.app "getitem" [out', (Term.app "~" [na'])])]), (Term.int (0 : Int))])])) then
        let out' : Term := (Term.app ".as_date" [out']);
        Out.ret [eff0, eff1] out'
      else
        Out.ret [eff0, eff1] out'

/-- the decorators of dataiter/dt.py: from_string, outermost first -/
def dt_from_string_decorators : List String := []

/-- the signature of dataiter/dt.py: from_string: parameters in order, with the source text of their defaults -/
def dt_from_string_signature : List String := ["x", "format"]

/-- the calls of dataiter/dt.py: from_string in the order Python makes them along the source text -/
def dt_from_string_call_order : List String := ["util.is_scalar", "Vector", "from_string", "isinstance", "isinstance", "np.full_like", "Vector.fast", "na.all", "np.vectorize", "x[~na].astype", "f", "out.as_datetime", "len", "hour", "(hour(out[~na]) == 0).all", "minute", "(minute(out[~na]) == 0).all", "second", "(second(out[~na]) == 0).all", "out.as_date"]

/-- dataiter/dt.py: year (sha256 of the function source: 966527defa24e52d) -/
def dt_year (truth : Term → Bool) : Out :=
  Out.ret [] (Term.app "_pull_int" [(Term.sym "x"), (Term.app "lambda" [(Term.app "params" [(Term.sym "y")]), (Term.app ".year" [(Term.sym "y")])])])

/-- the decorators of dataiter/dt.py: year, outermost first -/
def dt_year_decorators : List String := []

/-- the signature of dataiter/dt.py: year: parameters in order, with the source text of their defaults -/
def dt_year_signature : List String := ["x"]

/-- the calls of dataiter/dt.py: year in the order Python makes them along the source text -/
def dt_year_call_order : List String := ["_pull_int"]

/-- dataiter/dt.py: quarter (sha256 of the function source: ad22adfe0412346d) -/
def dt_quarter (truth : Term → Bool) : Out :=
  let y' : Term := (Term.app "np.ceil" [(Term.app "Div" [(Term.app "month" [(Term.sym "x")]), (Term.int (3 : Int))])]);
  Out.ret [] (if truth (Term.app ".any" [(Term.app "np.isnan" [y'])]) then y' else (Term.app ".astype" [y', (Term.sym "int")]))

/-- the decorators of dataiter/dt.py: quarter, outermost first -/
def dt_quarter_decorators : List String := []

/-- the signature of dataiter/dt.py: quarter: parameters in order, with the source text of their defaults -/
def dt_quarter_signature : List String := ["x"]

/-- the calls of dataiter/dt.py: quarter in the order Python makes them along the source text -/
def dt_quarter_call_order : List String := ["month", "np.ceil", "np.isnan", "np.isnan(y).any", "y.astype"]

/-- dataiter/dt.py: weekday (sha256 of the function source: 26c5b568200c704c) -/
def dt_weekday (truth : Term → Bool) : Out :=
  Out.ret [] (Term.app "_pull_int" [(Term.sym "x"), (Term.app "lambda" [(Term.app "params" [(Term.sym "y")]), (Term.app ".weekday" [(Term.sym "y")])])])

/-- the decorators of dataiter/dt.py: weekday, outermost first -/
def dt_weekday_decorators : List String := []

/-- the signature of dataiter/dt.py: weekday: parameters in order, with the source text of their defaults -/
def dt_weekday_signature : List String := ["x"]

/-- the calls of dataiter/dt.py: weekday in the order Python makes them along the source text -/
def dt_weekday_call_order : List String := ["_pull_int"]

/-- dataiter/dt.py: replace (sha256 of the function source: 7a64db9835d04c00) -/
def dt_replace (truth : Term → Bool) : Out :=
  let kwargs' : Term := (Term.app "DictComp" [(Term.app "pair" [(Term.sym "k"), (Term.sym "v")]), (Term.app "in" [(Term.app "tuple" [(Term.sym "k"), (Term.sym "v")]), (Term.app ".items" [(Term.app "locals" [])]), (Term.app "if" [(Term.app "And" [(Term.app "NotEq" [(Term.sym "k"), (Term.sym "'x'")]), (Term.app "IsNot" [(Term.sym "v"), (Term.sym "None")])])])])]);
  if truth (Term.app "all" [(Term.app "map" [(Term.sym "util.is_scalar"), (Term.app ".values" [kwargs'])])]) then
    Out.ret [] (Term.app "_pull_datetime" [(Term.sym "x"), (Term.app "lambda" [(Term.app "params" [(Term.sym "y")]), (Term.app ".replace" [(Term.sym "y"), (Term.app "=**" [kwargs'])])])])
  else
    let eff0 : Term := (Term.app "for" [(Term.sym "value"), (Term.app ".values" [kwargs']), (Term.app "block" [(Term.app "assert" [(Term.app "Or" [(Term.app "util.is_scalar" [(Term.sym "value")]), (Term.app "Eq" [(Term.app "len" [(Term.sym "value")]), (Term.app "len" [(Term.sym "x")])])])])])]);
    let scalar_keys' : Term := (Term.app "ListComp" [(Term.sym "x"), (Term.app "in" [(Term.sym "x"), kwargs', (Term.app "if" [(Term.app "util.is_scalar" [(Term.app "getitem" [kwargs', (Term.sym "x")])])])])]);
    let vector_keys' : Term := (Term.app "ListComp" [(Term.sym "x"), (Term.app "in" [(Term.sym "x"), kwargs', (Term.app "if" [(Term.app "NotIn" [(Term.sym "x"), scalar_keys'])])])]);
    let eff1 : Term := (Term.app "assert" [(Term.app "isinstance" [(Term.sym "x"), (Term.sym "np.ndarray")])]);
    let eff2 : Term := (Term.app "assert" [(Term.app "np.issubdtype" [(Term.app ".dtype" [(Term.sym "x")]), (Term.sym "np.datetime64")])]);
    let out' : Term := (Term.app "np.full_like" [(Term.sym "x"), (Term.sym "np.nan")]);
    let out' : Term := (Term.app "Vector.fast" [out', (Term.sym "np.datetime64")]);
    let na' : Term := (Term.app "np.isnat" [(Term.sym "x")]);
    let xobj' : Term := (Term.app ".astype" [(Term.sym "x"), (Term.sym "object")]);
    let kwargs_scalar' : Term := (Term.app "DictComp" [(Term.app "pair" [(Term.sym "x"), (Term.app "getitem" [kwargs', (Term.sym "x")])]), (Term.app "in" [(Term.sym "x"), scalar_keys', (Term.app "if" [])])]);
    let eff3 : Term := (Term.app "for" [(Term.sym "i"), (Term.app "np.flatnonzero" [(Term.app "~" [na'])]), (Term.app "block" [(Term.app "for" [(Term.sym "key"), vector_keys', (Term.app "block" [(Term.app "store" [(Term.app "getitem" [kwargs_scalar', (Term.sym "key")]), (Term.app "getitem" [(Term.app "getitem" [kwargs', (Term.sym "key")]), (Term.sym "i")])])])]), (Term.app "store" [(Term.app "getitem" [out', (Term.sym "i")]), (Term.app ".replace" [(Term.app "getitem" [xobj', (Term.sym "i")]), (Term.app "=**" [kwargs_scalar'])])])])]);
    Out.ret [eff0, eff1, eff2, eff3] out'

/-- the decorators of dataiter/dt.py: replace, outermost first -/
def dt_replace_decorators : List String := []

/-- the signature of dataiter/dt.py: replace: parameters in order, with the source text of their defaults -/
def dt_replace_signature : List String := ["x", "year=None", "month=None", "day=None", "hour=None", "minute=None", "second=None", "microsecond=None"]

/-- the calls of dataiter/dt.py: replace in the order Python makes them along the source text -/
def dt_replace_call_order : List String := ["locals", "locals().items", "kwargs.values", "map", "all", "_pull_datetime", "kwargs.values", "util.is_scalar", "len", "len", "util.is_scalar", "isinstance", "np.issubdtype", "np.full_like", "Vector.fast", "np.isnat", "x.astype", "np.flatnonzero", "xobj[i].replace"]

end DI.Gen

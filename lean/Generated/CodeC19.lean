/-
  Generated/CodeC19.lean — REGENERATED on every run by harness/py2lean.py from the current source of
  /repo (symbolic execution of small control-flow functions; see Model/PyCore.lean).  Do not edit.
-/
import Model.PyCore

set_option linter.unusedVariables false

namespace DI.Gen

open DI.Py

/-- dataiter/regex.py: _prep (sha256 of the function source: d0aa8ca5350da771) -/
def regex_prep (truth : Term → Bool) : Out :=
  let eff0 : Term := (Term.app "assert" [(Term.app "isinstance" [(Term.sym "string"), (Term.sym "np.ndarray")])]);
  let eff1 : Term := (Term.app "assert" [(Term.app "isinstance" [(Term.app ".dtype" [(Term.sym "string")]), (Term.sym "StringDType")])]);
  let out' : Term := (Term.app "np.full_like" [(Term.sym "string"), (Term.sym "default"), (Term.sym "dtype")]);
  let na' : Term := (Term.app "Eq" [(Term.sym "string"), (Term.sym "dtypes.string.na_object")]);
  Out.ret [eff0, eff1] (Term.app "tuple" [out', na'])

/-- the decorators of dataiter/regex.py: _prep, outermost first -/
def regex_prep_decorators : List String := []

/-- the signature of dataiter/regex.py: _prep: parameters in order, with the source text of their defaults -/
def regex_prep_signature : List String := ["string", "dtype", "default"]

/-- the calls of dataiter/regex.py: _prep in the order Python makes them along the source text -/
def regex_prep_call_order : List String := ["isinstance", "isinstance", "np.full_like"]

/-- dataiter/regex.py: findall (sha256 of the function source: 4902cc55f73494f2) -/
def regex_findall (truth : Term → Bool) : Out :=
  if truth (Term.app "util.is_scalar" [(Term.sym "string")]) then
    Out.ret [] (Term.app "re.findall" [(Term.sym "pattern"), (Term.sym "string"), (Term.app "=flags" [(Term.sym "flags")])])
  else
    let tup0_2' : Term := (Term.app "_prep" [(Term.sym "string"), (Term.sym "object"), (Term.sym "None")]);
    let out' : Term := (Term.app "item0" [tup0_2']);
    let na' : Term := (Term.app "item1" [tup0_2']);
    let eff0 : Term := (Term.app "for" [(Term.sym "i"), (Term.app "np.flatnonzero" [(Term.app "~" [na'])]), (Term.app "block" [(Term.app "store" [(Term.app "getitem" [out', (Term.sym "i")]), (Term.app "re.findall" [(Term.sym "pattern"), (Term.app "getitem" [(Term.sym "string"), (Term.sym "i")]), (Term.app "=flags" [(Term.sym "flags")])])])])]);
    Out.ret [eff0] (Term.app "Vector.fast" [out', (Term.sym "object")])

/-- the decorators of dataiter/regex.py: findall, outermost first -/
def regex_findall_decorators : List String := []

/-- the signature of dataiter/regex.py: findall: parameters in order, with the source text of their defaults -/
def regex_findall_signature : List String := ["pattern", "string", "flags=0"]

/-- the calls of dataiter/regex.py: findall in the order Python makes them along the source text -/
def regex_findall_call_order : List String := ["util.is_scalar", "re.findall", "_prep", "np.flatnonzero", "re.findall", "Vector.fast"]

/-- dataiter/regex.py: fullmatch (sha256 of the function source: ec51428baae53866) -/
def regex_fullmatch (truth : Term → Bool) : Out :=
  if truth (Term.app "util.is_scalar" [(Term.sym "string")]) then
    Out.ret [] (Term.app "re.fullmatch" [(Term.sym "pattern"), (Term.sym "string"), (Term.app "=flags" [(Term.sym "flags")])])
  else
    let tup0_2' : Term := (Term.app "_prep" [(Term.sym "string"), (Term.sym "object"), (Term.sym "None")]);
    let out' : Term := (Term.app "item0" [tup0_2']);
    let na' : Term := (Term.app "item1" [tup0_2']);
    let eff0 : Term := (Term.app "for" [(Term.sym "i"), (Term.app "np.flatnonzero" [(Term.app "~" [na'])]), (Term.app "block" [(Term.app "store" [(Term.app "getitem" [out', (Term.sym "i")]), (Term.app "re.fullmatch" [(Term.sym "pattern"), (Term.app "getitem" [(Term.sym "string"), (Term.sym "i")]), (Term.app "=flags" [(Term.sym "flags")])])])])]);
    Out.ret [eff0] (Term.app "Vector.fast" [out', (Term.sym "object")])

/-- the decorators of dataiter/regex.py: fullmatch, outermost first -/
def regex_fullmatch_decorators : List String := []

/-- the signature of dataiter/regex.py: fullmatch: parameters in order, with the source text of their defaults -/
def regex_fullmatch_signature : List String := ["pattern", "string", "flags=0"]

/-- the calls of dataiter/regex.py: fullmatch in the order Python makes them along the source text -/
def regex_fullmatch_call_order : List String := ["util.is_scalar", "re.fullmatch", "_prep", "np.flatnonzero", "re.fullmatch", "Vector.fast"]

/-- dataiter/regex.py: match (sha256 of the function source: c6e925bac0647769) -/
def regex_match (truth : Term → Bool) : Out :=
  if truth (Term.app "util.is_scalar" [(Term.sym "string")]) then
    Out.ret [] (Term.app "re.match" [(Term.sym "pattern"), (Term.sym "string"), (Term.app "=flags" [(Term.sym "flags")])])
  else
    let tup0_2' : Term := (Term.app "_prep" [(Term.sym "string"), (Term.sym "object"), (Term.sym "None")]);
    let out' : Term := (Term.app "item0" [tup0_2']);
    let na' : Term := (Term.app "item1" [tup0_2']);
    let eff0 : Term := (Term.app "for" [(Term.sym "i"), (Term.app "np.flatnonzero" [(Term.app "~" [na'])]), (Term.app "block" [(Term.app "store" [(Term.app "getitem" [out', (Term.sym "i")]), (Term.app "re.match" [(Term.sym "pattern"), (Term.app "getitem" [(Term.sym "string"), (Term.sym "i")]), (Term.app "=flags" [(Term.sym "flags")])])])])]);
    Out.ret [eff0] (Term.app "Vector.fast" [out', (Term.sym "object")])

/-- the decorators of dataiter/regex.py: match, outermost first -/
def regex_match_decorators : List String := []

/-- the signature of dataiter/regex.py: match: parameters in order, with the source text of their defaults -/
def regex_match_signature : List String := ["pattern", "string", "flags=0"]

/-- the calls of dataiter/regex.py: match in the order Python makes them along the source text -/
def regex_match_call_order : List String := ["util.is_scalar", "re.match", "_prep", "np.flatnonzero", "re.match", "Vector.fast"]

/-- dataiter/regex.py: search (sha256 of the function source: 12b06671de6cfb13) -/
def regex_search (truth : Term → Bool) : Out :=
  if truth (Term.app "util.is_scalar" [(Term.sym "string")]) then
    Out.ret [] (Term.app "re.search" [(Term.sym "pattern"), (Term.sym "string"), (Term.app "=flags" [(Term.sym "flags")])])
  else
    let tup0_2' : Term := (Term.app "_prep" [(Term.sym "string"), (Term.sym "object"), (Term.sym "None")]);
    let out' : Term := (Term.app "item0" [tup0_2']);
    let na' : Term := (Term.app "item1" [tup0_2']);
    let eff0 : Term := (Term.app "for" [(Term.sym "i"), (Term.app "np.flatnonzero" [(Term.app "~" [na'])]), (Term.app "block" [(Term.app "store" [(Term.app "getitem" [out', (Term.sym "i")]), (Term.app "re.search" [(Term.sym "pattern"), (Term.app "getitem" [(Term.sym "string"), (Term.sym "i")]), (Term.app "=flags" [(Term.sym "flags")])])])])]);
    Out.ret [eff0] (Term.app "Vector.fast" [out', (Term.sym "object")])

/-- the decorators of dataiter/regex.py: search, outermost first -/
def regex_search_decorators : List String := []

/-- the signature of dataiter/regex.py: search: parameters in order, with the source text of their defaults -/
def regex_search_signature : List String := ["pattern", "string", "flags=0"]

/-- the calls of dataiter/regex.py: search in the order Python makes them along the source text -/
def regex_search_call_order : List String := ["util.is_scalar", "re.search", "_prep", "np.flatnonzero", "re.search", "Vector.fast"]

/-- dataiter/regex.py: split (sha256 of the function source: 8ef049b1a9914292) -/
def regex_split (truth : Term → Bool) : Out :=
  if truth (Term.app "util.is_scalar" [(Term.sym "string")]) then
    Out.ret [] (Term.app "re.split" [(Term.sym "pattern"), (Term.sym "string"), (Term.app "=maxsplit" [(Term.sym "maxsplit")]), (Term.app "=flags" [(Term.sym "flags")])])
  else
    let tup0_2' : Term := (Term.app "_prep" [(Term.sym "string"), (Term.sym "object"), (Term.sym "None")]);
    let out' : Term := (Term.app "item0" [tup0_2']);
    let na' : Term := (Term.app "item1" [tup0_2']);
    let eff0 : Term := (Term.app "for" [(Term.sym "i"), (Term.app "np.flatnonzero" [(Term.app "~" [na'])]), (Term.app "block" [(Term.app "store" [(Term.app "getitem" [out', (Term.sym "i")]), (Term.app "re.split" [(Term.sym "pattern"), (Term.app "getitem" [(Term.sym "string"), (Term.sym "i")]), (Term.app "=maxsplit" [(Term.sym "maxsplit")]), (Term.app "=flags" [(Term.sym "flags")])])])])]);
    Out.ret [eff0] (Term.app "Vector.fast" [out', (Term.sym "object")])

/-- the decorators of dataiter/regex.py: split, outermost first -/
def regex_split_decorators : List String := []

/-- the signature of dataiter/regex.py: split: parameters in order, with the source text of their defaults -/
def regex_split_signature : List String := ["pattern", "string", "maxsplit=0", "flags=0"]

/-- the calls of dataiter/regex.py: split in the order Python makes them along the source text -/
def regex_split_call_order : List String := ["util.is_scalar", "re.split", "_prep", "np.flatnonzero", "re.split", "Vector.fast"]

/-- dataiter/regex.py: sub (sha256 of the function source: a357078e3cf50bcf) -/
def regex_sub (truth : Term → Bool) : Out :=
  if truth (Term.app "util.is_scalar" [(Term.sym "string")]) then
    Out.ret [] (Term.app "re.sub" [(Term.sym "pattern"), (Term.sym "repl"), (Term.sym "string"), (Term.app "=count" [(Term.sym "count")]), (Term.app "=flags" [(Term.sym "flags")])])
  else
    let tup0_2' : Term := (Term.app "_prep" [(Term.sym "string"), (Term.sym "dtypes.string"), (Term.sym "dtypes.string.na_object")]);
    let out' : Term := (Term.app "item0" [tup0_2']);
    let na' : Term := (Term.app "item1" [tup0_2']);
    let eff0 : Term := (Term.app "for" [(Term.sym "i"), (Term.app "np.flatnonzero" [(Term.app "~" [na'])]), (Term.app "block" [(Term.app "store" [(Term.app "getitem" [out', (Term.sym "i")]), (Term.app "re.sub" [(Term.sym "pattern"), (Term.sym "repl"), (Term.app "getitem" [(Term.sym "string"), (Term.sym "i")]), (Term.app "=count" [(Term.sym "count")]), (Term.app "=flags" [(Term.sym "flags")])])])])]);
    Out.ret [eff0] (Term.app "Vector.fast" [out', (Term.sym "str")])

/-- the decorators of dataiter/regex.py: sub, outermost first -/
def regex_sub_decorators : List String := []

/-- the signature of dataiter/regex.py: sub: parameters in order, with the source text of their defaults -/
def regex_sub_signature : List String := ["pattern", "repl", "string", "count=0", "flags=0"]

/-- the calls of dataiter/regex.py: sub in the order Python makes them along the source text -/
def regex_sub_call_order : List String := ["util.is_scalar", "re.sub", "_prep", "np.flatnonzero", "re.sub", "Vector.fast"]

/-- dataiter/regex.py: subn (sha256 of the function source: 7393a5bff2ee5411) -/
def regex_subn (truth : Term → Bool) : Out :=
  if truth (Term.app "util.is_scalar" [(Term.sym "string")]) then
    Out.ret [] (Term.app "re.subn" [(Term.sym "pattern"), (Term.sym "repl"), (Term.sym "string"), (Term.app "=count" [(Term.sym "count")]), (Term.app "=flags" [(Term.sym "flags")])])
  else
    let tup0_2' : Term := (Term.app "_prep" [(Term.sym "string"), (Term.sym "object"), (Term.sym "None")]);
    let out' : Term := (Term.app "item0" [tup0_2']);
    let na' : Term := (Term.app "item1" [tup0_2']);
    let eff0 : Term := (Term.app "for" [(Term.sym "i"), (Term.app "np.flatnonzero" [(Term.app "~" [na'])]), (Term.app "block" [(Term.app "store" [(Term.app "getitem" [out', (Term.sym "i")]), (Term.app "re.subn" [(Term.sym "pattern"), (Term.sym "repl"), (Term.app "getitem" [(Term.sym "string"), (Term.sym "i")]), (Term.app "=count" [(Term.sym "count")]), (Term.app "=flags" [(Term.sym "flags")])])])])]);
    Out.ret [eff0] (Term.app "Vector.fast" [out', (Term.sym "object")])

/-- the decorators of dataiter/regex.py: subn, outermost first -/
def regex_subn_decorators : List String := []

/-- the signature of dataiter/regex.py: subn: parameters in order, with the source text of their defaults -/
def regex_subn_signature : List String := ["pattern", "repl", "string", "count=0", "flags=0"]

/-- the calls of dataiter/regex.py: subn in the order Python makes them along the source text -/
def regex_subn_call_order : List String := ["util.is_scalar", "re.subn", "_prep", "np.flatnonzero", "re.subn", "Vector.fast"]

/-- dataiter/dt.py: _pull_int (sha256 of the function source: e730627818a8e6fd) -/
def dt_pull_int (truth : Term → Bool) : Out :=
  if truth (Term.app "util.is_scalar" [(Term.sym "x")]) then
    let x' : Term := (Term.app "Vector" [(Term.app "list" [(Term.sym "x")]), (Term.sym "np.datetime64")]);
    Out.ret [] (Term.app "getitem" [(Term.app "_pull_int" [x', (Term.sym "function")]), (Term.int (0 : Int))])
  else
    let eff0 : Term := (Term.app "assert" [(Term.app "isinstance" [(Term.sym "x"), (Term.sym "np.ndarray")])]);
    let eff1 : Term := (Term.app "assert" [(Term.app "np.issubdtype" [(Term.app ".dtype" [(Term.sym "x")]), (Term.sym "np.datetime64")])]);
    let out' : Term := (Term.app "np.full_like" [(Term.sym "x"), (Term.sym "np.nan"), (Term.sym "float")]);
    let out' : Term := (Term.app "Vector.fast" [out', (Term.sym "float")]);
    let na' : Term := (Term.app "np.isnat" [(Term.sym "x")]);
    if truth (Term.app ".all" [na']) then
      Out.ret [eff0, eff1] out'
    else
      let f' : Term := (Term.app "np.vectorize" [(Term.sym "function")]);
      let eff2 : Term := (Term.app "store" [(Term.app "getitem" [out', (Term.app "~" [na'])]), (Term.app "call" [f', (Term.app ".astype" [(Term.app "getitem" [(Term.sym "x"), (Term.app "~" [na'])]), (Term.sym "object")])])]);
      Out.ret [eff0, eff1, eff2] (if truth (Term.app ".any" [na']) then out' else (Term.app ".as_integer" [out']))

/-- the decorators of dataiter/dt.py: _pull_int, outermost first -/
def dt_pull_int_decorators : List String := []

/-- the signature of dataiter/dt.py: _pull_int: parameters in order, with the source text of their defaults -/
def dt_pull_int_signature : List String := ["x", "function"]

/-- the calls of dataiter/dt.py: _pull_int in the order Python makes them along the source text -/
def dt_pull_int_call_order : List String := ["util.is_scalar", "Vector", "_pull_int", "isinstance", "np.issubdtype", "np.full_like", "Vector.fast", "np.isnat", "na.all", "np.vectorize", "x[~na].astype", "f", "na.any", "out.as_integer"]

/-- dataiter/dt.py: _pull_str (sha256 of the function source: 0ace260099d3c2a1) -/
def dt_pull_str (truth : Term → Bool) : Out :=
  if truth (Term.app "util.is_scalar" [(Term.sym "x")]) then
    let x' : Term := (Term.app "Vector" [(Term.app "list" [(Term.sym "x")]), (Term.sym "np.datetime64")]);
    Out.ret [] (Term.app "getitem" [(Term.app "_pull_str" [x', (Term.sym "function")]), (Term.int (0 : Int))])
  else
    let eff0 : Term := (Term.app "assert" [(Term.app "isinstance" [(Term.sym "x"), (Term.sym "np.ndarray")])]);
    let eff1 : Term := (Term.app "assert" [(Term.app "np.issubdtype" [(Term.app ".dtype" [(Term.sym "x")]), (Term.sym "np.datetime64")])]);
    let out' : Term := (Term.app "np.full_like" [(Term.sym "x"), (Term.sym "dtypes.string.na_object"), (Term.sym "object")]);
    let out' : Term := (Term.app "Vector.fast" [out', (Term.sym "object")]);
    let na' : Term := (Term.app "np.isnat" [(Term.sym "x")]);
    if truth (Term.app ".all" [na']) then
      Out.ret [eff0, eff1] (Term.app ".as_string" [out'])
    else
      let f' : Term := (Term.app "np.vectorize" [(Term.sym "function")]);
      let eff2 : Term := (Term.app "store" [(Term.app "getitem" [out', (Term.app "~" [na'])]), (Term.app "call" [f', (Term.app ".astype" [(Term.app "getitem" [(Term.sym "x"), (Term.app "~" [na'])]), (Term.sym "object")])])]);
      Out.ret [eff0, eff1, eff2] (Term.app ".as_string" [out'])

/-- the decorators of dataiter/dt.py: _pull_str, outermost first -/
def dt_pull_str_decorators : List String := []

/-- the signature of dataiter/dt.py: _pull_str: parameters in order, with the source text of their defaults -/
def dt_pull_str_signature : List String := ["x", "function"]

/-- the calls of dataiter/dt.py: _pull_str in the order Python makes them along the source text -/
def dt_pull_str_call_order : List String := ["util.is_scalar", "Vector", "_pull_str", "isinstance", "np.issubdtype", "np.full_like", "Vector.fast", "np.isnat", "na.all", "out.as_string", "np.vectorize", "x[~na].astype", "f", "out.as_string"]

/-- dataiter/dt.py: _pull_datetime (sha256 of the function source: b450a177d6bbe7de) -/
def dt_pull_datetime (truth : Term → Bool) : Out :=
  if truth (Term.app "util.is_scalar" [(Term.sym "x")]) then
    let x' : Term := (Term.app "Vector" [(Term.app "list" [(Term.sym "x")]), (Term.sym "np.datetime64")]);
    Out.ret [] (Term.app "getitem" [(Term.app "_pull_datetime" [x', (Term.sym "function")]), (Term.int (0 : Int))])
  else
    let eff0 : Term := (Term.app "assert" [(Term.app "isinstance" [(Term.sym "x"), (Term.sym "np.ndarray")])]);
    let eff1 : Term := (Term.app "assert" [(Term.app "np.issubdtype" [(Term.app ".dtype" [(Term.sym "x")]), (Term.sym "np.datetime64")])]);
    let out' : Term := (Term.app "np.full_like" [(Term.sym "x"), (Term.sym "np.nan")]);
    let out' : Term := (Term.app "Vector.fast" [out', (Term.sym "np.datetime64")]);
    let na' : Term := (Term.app "np.isnat" [(Term.sym "x")]);
    if truth (Term.app ".all" [na']) then
      Out.ret [eff0, eff1] out'
    else
      let f' : Term := (Term.app "np.vectorize" [(Term.sym "function")]);
      let eff2 : Term := (Term.app "store" [(Term.app "getitem" [out', (Term.app "~" [na'])]), (Term.app "call" [f', (Term.app ".astype" [(Term.app "getitem" [(Term.sym "x"), (Term.app "~" [na'])]), (Term.sym "object")])])]);
      Out.ret [eff0, eff1, eff2] out'

/-- the decorators of dataiter/dt.py: _pull_datetime, outermost first -/
def dt_pull_datetime_decorators : List String := []

/-- the signature of dataiter/dt.py: _pull_datetime: parameters in order, with the source text of their defaults -/
def dt_pull_datetime_signature : List String := ["x", "function"]

/-- the calls of dataiter/dt.py: _pull_datetime in the order Python makes them along the source text -/
def dt_pull_datetime_call_order : List String := ["util.is_scalar", "Vector", "_pull_datetime", "isinstance", "np.issubdtype", "np.full_like", "Vector.fast", "np.isnat", "na.all", "np.vectorize", "x[~na].astype", "f"]

/-- dataiter/dt.py: to_string (sha256 of the function source: b9b05e2e2af69566) -/
def dt_to_string (truth : Term → Bool) : Out :=
  Out.ret [] (Term.app "_pull_str" [(Term.sym "x"), (Term.app "lambda" [(Term.app "params" [(Term.sym "x")]), (Term.app ".strftime" [(Term.sym "x"), (Term.sym "format")])])])

/-- the decorators of dataiter/dt.py: to_string, outermost first -/
def dt_to_string_decorators : List String := []

/-- the signature of dataiter/dt.py: to_string: parameters in order, with the source text of their defaults -/
def dt_to_string_signature : List String := ["x", "format"]

/-- the calls of dataiter/dt.py: to_string in the order Python makes them along the source text -/
def dt_to_string_call_order : List String := ["_pull_str"]

/-- dataiter/dt.py: from_string (sha256 of the function source: 03b5aa8323188f3d) -/
def dt_from_string (truth : Term → Bool) : Out :=
  if truth (Term.app "util.is_scalar" [(Term.sym "x")]) then
    let x' : Term := (Term.app "Vector" [(Term.app "list" [(Term.sym "x")]), (Term.sym "str")]);
    Out.ret [] (Term.app "getitem" [(Term.app "from_string" [x', (Term.sym "format")]), (Term.int (0 : Int))])
  else
    let eff0 : Term := (Term.app "assert" [(Term.app "isinstance" [(Term.sym "x"), (Term.sym "np.ndarray")])]);
    let eff1 : Term := (Term.app "assert" [(Term.app "isinstance" [(Term.app ".dtype" [(Term.sym "x")]), (Term.sym "StringDType")])]);
    let out' : Term := (Term.app "np.full_like" [(Term.sym "x"), (Term.sym "None"), (Term.sym "object")]);
    let out' : Term := (Term.app "Vector.fast" [out', (Term.sym "object")]);
    let na' : Term := (Term.app "Eq" [(Term.sym "x"), (Term.sym "dtypes.string.na_object")]);
    if (!truth (Term.app ".all" [na'])) then
      let f' : Term := (Term.app "np.vectorize" [(Term.app "lambda" [(Term.app "params" [(Term.sym "x")]), (Term.app "datetime.datetime.strptime" [(Term.sym "x"), (Term.sym "format")])])]);
      let eff2 : Term := (Term.app "store" [(Term.app "getitem" [out', (Term.app "~" [na'])]), (Term.app "call" [f', (Term.app ".astype" [(Term.app "getitem" [(Term.sym "x"), (Term.app "~" [na'])]), (Term.sym "object")])])]);
      let out' : Term := (Term.app ".as_datetime" [out']);
      if (truth (Term.app "Gt" [(Term.app "len" [(Term.app "getitem" [out', (Term.app "~" [na'])])]), (Term.int (0 : Int))]) && truth (Term.app ".all" [(Term.app "Eq" [(Term.app "hour" [(Term.app "getitem" [out', (Term.app "~" [na'])])]), (Term.int (0 : Int))])]) && truth (Term.app ".all" [(Term.app "Eq" [(Term.app "minute" [(Term.app "getitem" [out', (Term.app "~" [na'])])]), (Term.int (0 : Int))])]) && truth (Term.app ".all" [(Term.app "Eq" [(Term.app "second" [(Term.app "getitem" [out', (Term.app "~" [na'])])]), (Term.int (0 : Int))])]) && truth (Term.app ".all" [(Term.app "Eq" [(Term.app "microsecond" [(Term.app "getitem" [out', (Term.app "~" [na'])])]), (Term.int (0 : Int))])])) then
        let out' : Term := (Term.app ".as_date" [out']);
        Out.ret [eff0, eff1, eff2] out'
      else
        Out.ret [eff0, eff1, eff2] out'
    else
      let out' : Term := (Term.app ".as_datetime" [out']);
      if (truth (Term.app "Gt" [(Term.app "len" [(Term.app "getitem" [out', (Term.app "~" [na'])])]), (Term.int (0 : Int))]) && truth (Term.app ".all" [(Term.app "Eq" [(Term.app "hour" [(Term.app "getitem" [out', (Term.app "~" [na'])])]), (Term.int (0 : Int))])]) && truth (Term.app ".all" [(Term.app "Eq" [(Term.app "minute" [(Term.app "getitem" [out', (Term.app "~" [na'])])]), (Term.int (0 : Int))])]) && truth (Term.app ".all" [(Term.app "Eq" [(Term.app "second" [(Term.app "getitem" [out', (Term.app "~" [na'])])]), (Term.int (0 : Int))])]) && truth (Term.app ".all" [(Term.app "Eq" [(Term.app "microsecond" [(Term.app "getitem" [out', (Term.app "~" [na'])])]), (Term.int (0 : Int))])])) then
        let out' : Term := (Term.app ".as_date" [out']);
        Out.ret [eff0, eff1] out'
      else
        Out.ret [eff0, eff1] out'

/-- the decorators of dataiter/dt.py: from_string, outermost first -/
def dt_from_string_decorators : List String := []

/-- the signature of dataiter/dt.py: from_string: parameters in order, with the source text of their defaults -/
def dt_from_string_signature : List String := ["x", "format"]

/-- the calls of dataiter/dt.py: from_string in the order Python makes them along the source text -/
def dt_from_string_call_order : List String := ["util.is_scalar", "Vector", "from_string", "isinstance", "isinstance", "np.full_like", "Vector.fast", "na.all", "np.vectorize", "x[~na].astype", "f", "out.as_datetime", "len", "hour", "(hour(out[~na]) == 0).all", "minute", "(minute(out[~na]) == 0).all", "second", "(second(out[~na]) == 0).all", "microsecond", "(microsecond(out[~na]) == 0).all", "out.as_date"]

/-- dataiter/dt.py: year (sha256 of the function source: 966527defa24e52d) -/
def dt_year (truth : Term → Bool) : Out :=
  Out.ret [] (Term.app "_pull_int" [(Term.sym "x"), (Term.app "lambda" [(Term.app "params" [(Term.sym "y")]), (Term.app ".year" [(Term.sym "y")])])])

/-- the decorators of dataiter/dt.py: year, outermost first -/
def dt_year_decorators : List String := []

/-- the signature of dataiter/dt.py: year: parameters in order, with the source text of their defaults -/
def dt_year_signature : List String := ["x"]

/-- the calls of dataiter/dt.py: year in the order Python makes them along the source text -/
def dt_year_call_order : List String := ["_pull_int"]

/-- dataiter/dt.py: quarter (sha256 of the function source: ad22adfe0412346d) -/
def dt_quarter (truth : Term → Bool) : Out :=
  let y' : Term := (Term.app "np.ceil" [(Term.app "Div" [(Term.app "month" [(Term.sym "x")]), (Term.int (3 : Int))])]);
  Out.ret [] (if truth (Term.app ".any" [(Term.app "np.isnan" [y'])]) then y' else (Term.app ".astype" [y', (Term.sym "int")]))

/-- the decorators of dataiter/dt.py: quarter, outermost first -/
def dt_quarter_decorators : List String := []

/-- the signature of dataiter/dt.py: quarter: parameters in order, with the source text of their defaults -/
def dt_quarter_signature : List String := ["x"]

/-- the calls of dataiter/dt.py: quarter in the order Python makes them along the source text -/
def dt_quarter_call_order : List String := ["month", "np.ceil", "np.isnan", "np.isnan(y).any", "y.astype"]

/-- dataiter/dt.py: weekday (sha256 of the function source: 26c5b568200c704c) -/
def dt_weekday (truth : Term → Bool) : Out :=
  Out.ret [] (Term.app "_pull_int" [(Term.sym "x"), (Term.app "lambda" [(Term.app "params" [(Term.sym "y")]), (Term.app ".weekday" [(Term.sym "y")])])])

/-- the decorators of dataiter/dt.py: weekday, outermost first -/
def dt_weekday_decorators : List String := []

/-- the signature of dataiter/dt.py: weekday: parameters in order, with the source text of their defaults -/
def dt_weekday_signature : List String := ["x"]

/-- the calls of dataiter/dt.py: weekday in the order Python makes them along the source text -/
def dt_weekday_call_order : List String := ["_pull_int"]

/-- dataiter/dt.py: replace (sha256 of the function source: 7a64db9835d04c00) -/
def dt_replace (truth : Term → Bool) : Out :=
  let kwargs' : Term := (Term.app "DictComp" [(Term.app "pair" [(Term.sym "k"), (Term.sym "v")]), (Term.app "in" [(Term.app "tuple" [(Term.sym "k"), (Term.sym "v")]), (Term.app ".items" [(Term.app "locals" [])]), (Term.app "if" [(Term.app "And" [(Term.app "NotEq" [(Term.sym "k"), (Term.sym "'x'")]), (Term.app "IsNot" [(Term.sym "v"), (Term.sym "None")])])])])]);
  if truth (Term.app "all" [(Term.app "map" [(Term.sym "util.is_scalar"), (Term.app ".values" [kwargs'])])]) then
    Out.ret [] (Term.app "_pull_datetime" [(Term.sym "x"), (Term.app "lambda" [(Term.app "params" [(Term.sym "y")]), (Term.app ".replace" [(Term.sym "y"), (Term.app "=**" [kwargs'])])])])
  else
    let eff0 : Term := (Term.app "for" [(Term.sym "value"), (Term.app ".values" [kwargs']), (Term.app "block" [(Term.app "assert" [(Term.app "Or" [(Term.app "util.is_scalar" [(Term.sym "value")]), (Term.app "Eq" [(Term.app "len" [(Term.sym "value")]), (Term.app "len" [(Term.sym "x")])])])])])]);
    let scalar_keys' : Term := (Term.app "ListComp" [(Term.sym "x"), (Term.app "in" [(Term.sym "x"), kwargs', (Term.app "if" [(Term.app "util.is_scalar" [(Term.app "getitem" [kwargs', (Term.sym "x")])])])])]);
    let vector_keys' : Term := (Term.app "ListComp" [(Term.sym "x"), (Term.app "in" [(Term.sym "x"), kwargs', (Term.app "if" [(Term.app "NotIn" [(Term.sym "x"), scalar_keys'])])])]);
    let eff1 : Term := (Term.app "assert" [(Term.app "isinstance" [(Term.sym "x"), (Term.sym "np.ndarray")])]);
    let eff2 : Term := (Term.app "assert" [(Term.app "np.issubdtype" [(Term.app ".dtype" [(Term.sym "x")]), (Term.sym "np.datetime64")])]);
    let out' : Term := (Term.app "np.full_like" [(Term.sym "x"), (Term.sym "np.nan")]);
    let out' : Term := (Term.app "Vector.fast" [out', (Term.sym "np.datetime64")]);
    let na' : Term := (Term.app "np.isnat" [(Term.sym "x")]);
    let xobj' : Term := (Term.app ".astype" [(Term.sym "x"), (Term.sym "object")]);
    let kwargs_scalar' : Term := (Term.app "DictComp" [(Term.app "pair" [(Term.sym "x"), (Term.app "getitem" [kwargs', (Term.sym "x")])]), (Term.app "in" [(Term.sym "x"), scalar_keys', (Term.app "if" [])])]);
    let eff3 : Term := (Term.app "for" [(Term.sym "i"), (Term.app "np.flatnonzero" [(Term.app "~" [na'])]), (Term.app "block" [(Term.app "for" [(Term.sym "key"), vector_keys', (Term.app "block" [(Term.app "store" [(Term.app "getitem" [kwargs_scalar', (Term.sym "key")]), (Term.app "getitem" [(Term.app "getitem" [kwargs', (Term.sym "key")]), (Term.sym "i")])])])]), (Term.app "store" [(Term.app "getitem" [out', (Term.sym "i")]), (Term.app ".replace" [(Term.app "getitem" [xobj', (Term.sym "i")]), (Term.app "=**" [kwargs_scalar'])])])])]);
    Out.ret [eff0, eff1, eff2, eff3] out'

/-- the decorators of dataiter/dt.py: replace, outermost first -/
def dt_replace_decorators : List String := []

/-- the signature of dataiter/dt.py: replace: parameters in order, with the source text of their defaults -/
def dt_replace_signature : List String := ["x", "year=None", "month=None", "day=None", "hour=None", "minute=None", "second=None", "microsecond=None"]

/-- the calls of dataiter/dt.py: replace in the order Python makes them along the source text -/
def dt_replace_call_order : List String := ["locals", "locals().items", "kwargs.values", "map", "all", "_pull_datetime", "kwargs.values", "util.is_scalar", "len", "len", "util.is_scalar", "isinstance", "np.issubdtype", "np.full_like", "Vector.fast", "np.isnat", "x.astype", "np.flatnonzero", "xobj[i].replace"]

/-- dataiter/dt.py: day (sha256 of the function source: b60060c6ed0c6b70) -/
def dt_day (truth : Term → Bool) : Out :=
  Out.ret [] (Term.app "_pull_int" [(Term.sym "x"), (Term.app "lambda" [(Term.app "params" [(Term.sym "y")]), (Term.app ".day" [(Term.sym "y")])])])

/-- the decorators of dataiter/dt.py: day, outermost first -/
def dt_day_decorators : List String := []

/-- the signature of dataiter/dt.py: day: parameters in order, with the source text of their defaults -/
def dt_day_signature : List String := ["x"]

/-- the calls of dataiter/dt.py: day in the order Python makes them along the source text -/
def dt_day_call_order : List String := ["_pull_int"]

/-- dataiter/dt.py: hour (sha256 of the function source: ac8f05f3fb74c24c) -/
def dt_hour (truth : Term → Bool) : Out :=
  Out.ret [] (Term.app "_pull_int" [(Term.sym "x"), (Term.app "lambda" [(Term.app "params" [(Term.sym "y")]), (Term.app ".hour" [(Term.sym "y")])])])

/-- the decorators of dataiter/dt.py: hour, outermost first -/
def dt_hour_decorators : List String := []

/-- the signature of dataiter/dt.py: hour: parameters in order, with the source text of their defaults -/
def dt_hour_signature : List String := ["x"]

/-- the calls of dataiter/dt.py: hour in the order Python makes them along the source text -/
def dt_hour_call_order : List String := ["_pull_int"]

/-- dataiter/dt.py: isoweek (sha256 of the function source: 75914b97df1e936f) -/
def dt_isoweek (truth : Term → Bool) : Out :=
  Out.ret [] (Term.app "_pull_int" [(Term.sym "x"), (Term.app "lambda" [(Term.app "params" [(Term.sym "y")]), (Term.app "getitem" [(Term.app ".isocalendar" [(Term.sym "y")]), (Term.int (1 : Int))])])])

/-- the decorators of dataiter/dt.py: isoweek, outermost first -/
def dt_isoweek_decorators : List String := []

/-- the signature of dataiter/dt.py: isoweek: parameters in order, with the source text of their defaults -/
def dt_isoweek_signature : List String := ["x"]

/-- the calls of dataiter/dt.py: isoweek in the order Python makes them along the source text -/
def dt_isoweek_call_order : List String := ["_pull_int"]

/-- dataiter/dt.py: isoweekday (sha256 of the function source: b70682e81cf79fb3) -/
def dt_isoweekday (truth : Term → Bool) : Out :=
  Out.ret [] (Term.app "_pull_int" [(Term.sym "x"), (Term.app "lambda" [(Term.app "params" [(Term.sym "y")]), (Term.app ".isoweekday" [(Term.sym "y")])])])

/-- the decorators of dataiter/dt.py: isoweekday, outermost first -/
def dt_isoweekday_decorators : List String := []

/-- the signature of dataiter/dt.py: isoweekday: parameters in order, with the source text of their defaults -/
def dt_isoweekday_signature : List String := ["x"]

/-- the calls of dataiter/dt.py: isoweekday in the order Python makes them along the source text -/
def dt_isoweekday_call_order : List String := ["_pull_int"]

/-- dataiter/dt.py: microsecond (sha256 of the function source: 490be2b86f0eb022) -/
def dt_microsecond (truth : Term → Bool) : Out :=
  Out.ret [] (Term.app "_pull_int" [(Term.sym "x"), (Term.app "lambda" [(Term.app "params" [(Term.sym "y")]), (Term.app ".microsecond" [(Term.sym "y")])])])

/-- the decorators of dataiter/dt.py: microsecond, outermost first -/
def dt_microsecond_decorators : List String := []

/-- the signature of dataiter/dt.py: microsecond: parameters in order, with the source text of their defaults -/
def dt_microsecond_signature : List String := ["x"]

/-- the calls of dataiter/dt.py: microsecond in the order Python makes them along the source text -/
def dt_microsecond_call_order : List String := ["_pull_int"]

/-- dataiter/dt.py: minute (sha256 of the function source: fa023e4cec79efe0) -/
def dt_minute (truth : Term → Bool) : Out :=
  Out.ret [] (Term.app "_pull_int" [(Term.sym "x"), (Term.app "lambda" [(Term.app "params" [(Term.sym "y")]), (Term.app ".minute" [(Term.sym "y")])])])

/-- the decorators of dataiter/dt.py: minute, outermost first -/
def dt_minute_decorators : List String := []

/-- the signature of dataiter/dt.py: minute: parameters in order, with the source text of their defaults -/
def dt_minute_signature : List String := ["x"]

/-- the calls of dataiter/dt.py: minute in the order Python makes them along the source text -/
def dt_minute_call_order : List String := ["_pull_int"]

/-- dataiter/dt.py: month (sha256 of the function source: eaba29b5ce057dfd) -/
def dt_month (truth : Term → Bool) : Out :=
  Out.ret [] (Term.app "_pull_int" [(Term.sym "x"), (Term.app "lambda" [(Term.app "params" [(Term.sym "y")]), (Term.app ".month" [(Term.sym "y")])])])

/-- the decorators of dataiter/dt.py: month, outermost first -/
def dt_month_decorators : List String := []

/-- the signature of dataiter/dt.py: month: parameters in order, with the source text of their defaults -/
def dt_month_signature : List String := ["x"]

/-- the calls of dataiter/dt.py: month in the order Python makes them along the source text -/
def dt_month_call_order : List String := ["_pull_int"]

/-- dataiter/dt.py: new (sha256 of the function source: d4b049c0f0676d1f) -/
def dt_new (truth : Term → Bool) : Out :=
  if truth (Term.app "util.is_scalar" [(Term.sym "x")]) then
    Out.ret [] (Term.app "np.datetime64" [(Term.sym "x")])
  else
    Out.ret [] (Term.app "Vector.fast" [(Term.app "map" [(Term.sym "np.datetime64"), (Term.sym "x")]), (Term.sym "np.datetime64")])

/-- the decorators of dataiter/dt.py: new, outermost first -/
def dt_new_decorators : List String := []

/-- the signature of dataiter/dt.py: new: parameters in order, with the source text of their defaults -/
def dt_new_signature : List String := ["x"]

/-- the calls of dataiter/dt.py: new in the order Python makes them along the source text -/
def dt_new_call_order : List String := ["util.is_scalar", "np.datetime64", "map", "Vector.fast"]

/-- dataiter/dt.py: now (sha256 of the function source: 4d5ae71fbb58d58c) -/
def dt_now (truth : Term → Bool) : Out :=
  Out.ret [] (Term.app "np.datetime64" [(Term.app "datetime.datetime.now" [])])

/-- the decorators of dataiter/dt.py: now, outermost first -/
def dt_now_decorators : List String := []

/-- the signature of dataiter/dt.py: now: parameters in order, with the source text of their defaults -/
def dt_now_signature : List String := []

/-- the calls of dataiter/dt.py: now in the order Python makes them along the source text -/
def dt_now_call_order : List String := ["datetime.datetime.now", "np.datetime64"]

/-- dataiter/dt.py: second (sha256 of the function source: fdf89b071834c6ff) -/
def dt_second (truth : Term → Bool) : Out :=
  Out.ret [] (Term.app "_pull_int" [(Term.sym "x"), (Term.app "lambda" [(Term.app "params" [(Term.sym "y")]), (Term.app ".second" [(Term.sym "y")])])])

/-- the decorators of dataiter/dt.py: second, outermost first -/
def dt_second_decorators : List String := []

/-- the signature of dataiter/dt.py: second: parameters in order, with the source text of their defaults -/
def dt_second_signature : List String := ["x"]

/-- the calls of dataiter/dt.py: second in the order Python makes them along the source text -/
def dt_second_call_order : List String := ["_pull_int"]

/-- dataiter/dt.py: today (sha256 of the function source: 2085565254e7ec60) -/
def dt_today (truth : Term → Bool) : Out :=
  Out.ret [] (Term.app "np.datetime64" [(Term.app "datetime.date.today" [])])

/-- the decorators of dataiter/dt.py: today, outermost first -/
def dt_today_decorators : List String := []

/-- the signature of dataiter/dt.py: today: parameters in order, with the source text of their defaults -/
def dt_today_signature : List String := []

/-- the calls of dataiter/dt.py: today in the order Python makes them along the source text -/
def dt_today_call_order : List String := ["datetime.date.today", "np.datetime64"]

/-- dataiter/vector.py: DtProxy.__init__ (sha256 of the function source: d376b96b28795a7d) -/
def DtProxy_init (truth : Term → Bool) : Out :=
  let wrap' : Term := (Term.app "lambda" [(Term.app "params" [(Term.sym "f")]), (Term.app "functools.partial" [(Term.sym "f"), (Term.sym "vector")])]);
  let attr0_1' : Term := (Term.app "call" [wrap', (Term.sym "dt.day")]);
  let eff0 : Term := (Term.app "setattr" [(Term.sym "self"), (Term.sym "day"), attr0_1']);
  let attr1_1' : Term := (Term.app "call" [wrap', (Term.sym "dt.from_string")]);
  let eff1 : Term := (Term.app "setattr" [(Term.sym "self"), (Term.sym "from_string"), attr1_1']);
  let attr2_1' : Term := (Term.app "call" [wrap', (Term.sym "dt.hour")]);
  let eff2 : Term := (Term.app "setattr" [(Term.sym "self"), (Term.sym "hour"), attr2_1']);
  let attr3_1' : Term := (Term.app "call" [wrap', (Term.sym "dt.isoweek")]);
  let eff3 : Term := (Term.app "setattr" [(Term.sym "self"), (Term.sym "isoweek"), attr3_1']);
  let attr4_1' : Term := (Term.app "call" [wrap', (Term.sym "dt.isoweekday")]);
  let eff4 : Term := (Term.app "setattr" [(Term.sym "self"), (Term.sym "isoweekday"), attr4_1']);
  let attr5_1' : Term := (Term.app "call" [wrap', (Term.sym "dt.microsecond")]);
  let eff5 : Term := (Term.app "setattr" [(Term.sym "self"), (Term.sym "microsecond"), attr5_1']);
  let attr6_1' : Term := (Term.app "call" [wrap', (Term.sym "dt.minute")]);
  let eff6 : Term := (Term.app "setattr" [(Term.sym "self"), (Term.sym "minute"), attr6_1']);
  let attr7_1' : Term := (Term.app "call" [wrap', (Term.sym "dt.month")]);
  let eff7 : Term := (Term.app "setattr" [(Term.sym "self"), (Term.sym "month"), attr7_1']);
  let attr8_1' : Term := (Term.app "call" [wrap', (Term.sym "dt.new")]);
  let eff8 : Term := (Term.app "setattr" [(Term.sym "self"), (Term.sym "new"), attr8_1']);
  let attr9_1' : Term := (Term.app "call" [wrap', (Term.sym "dt.quarter")]);
  let eff9 : Term := (Term.app "setattr" [(Term.sym "self"), (Term.sym "quarter"), attr9_1']);
  let attr10_1' : Term := (Term.app "call" [wrap', (Term.sym "dt.replace")]);
  let eff10 : Term := (Term.app "setattr" [(Term.sym "self"), (Term.sym "replace"), attr10_1']);
  let attr11_1' : Term := (Term.app "call" [wrap', (Term.sym "dt.second")]);
  let eff11 : Term := (Term.app "setattr" [(Term.sym "self"), (Term.sym "second"), attr11_1']);
  let attr12_1' : Term := (Term.app "call" [wrap', (Term.sym "dt.to_string")]);
  let eff12 : Term := (Term.app "setattr" [(Term.sym "self"), (Term.sym "to_string"), attr12_1']);
  let attr13_1' : Term := (Term.app "call" [wrap', (Term.sym "dt.weekday")]);
  let eff13 : Term := (Term.app "setattr" [(Term.sym "self"), (Term.sym "weekday"), attr13_1']);
  let attr14_1' : Term := (Term.app "call" [wrap', (Term.sym "dt.year")]);
  let eff14 : Term := (Term.app "setattr" [(Term.sym "self"), (Term.sym "year"), attr14_1']);
  Out.fall [eff0, eff1, eff2, eff3, eff4, eff5, eff6, eff7, eff8, eff9, eff10, eff11, eff12, eff13, eff14]

/-- the decorators of dataiter/vector.py: DtProxy.__init__, outermost first -/
def DtProxy_init_decorators : List String := []

/-- the signature of dataiter/vector.py: DtProxy.__init__: parameters in order, with the source text of their defaults -/
def DtProxy_init_signature : List String := ["self", "vector"]

/-- the calls of dataiter/vector.py: DtProxy.__init__ in the order Python makes them along the source text -/
def DtProxy_init_call_order : List String := ["wrap", "wrap", "wrap", "wrap", "wrap", "wrap", "wrap", "wrap", "wrap", "wrap", "wrap", "wrap", "wrap", "wrap", "wrap"]

/-- dataiter/vector.py: ReProxy.__init__ (sha256 of the function source: e1afeb5955f50e1e) -/
def ReProxy_init (truth : Term → Bool) : Out :=
  let wrap' : Term := (Term.app "lambda" [(Term.app "params" [(Term.sym "f")]), (Term.app "functools.partial" [(Term.sym "f"), (Term.app "=string" [(Term.sym "vector")])])]);
  let attr0_1' : Term := (Term.app "call" [wrap', (Term.sym "regex.findall")]);
  let eff0 : Term := (Term.app "setattr" [(Term.sym "self"), (Term.sym "findall"), attr0_1']);
  let attr1_1' : Term := (Term.app "call" [wrap', (Term.sym "regex.fullmatch")]);
  let eff1 : Term := (Term.app "setattr" [(Term.sym "self"), (Term.sym "fullmatch"), attr1_1']);
  let attr2_1' : Term := (Term.app "call" [wrap', (Term.sym "regex.match")]);
  let eff2 : Term := (Term.app "setattr" [(Term.sym "self"), (Term.sym "match"), attr2_1']);
  let attr3_1' : Term := (Term.app "call" [wrap', (Term.sym "regex.search")]);
  let eff3 : Term := (Term.app "setattr" [(Term.sym "self"), (Term.sym "search"), attr3_1']);
  let attr4_1' : Term := (Term.app "call" [wrap', (Term.sym "regex.split")]);
  let eff4 : Term := (Term.app "setattr" [(Term.sym "self"), (Term.sym "split"), attr4_1']);
  let attr5_1' : Term := (Term.app "call" [wrap', (Term.sym "regex.sub")]);
  let eff5 : Term := (Term.app "setattr" [(Term.sym "self"), (Term.sym "sub"), attr5_1']);
  let attr6_1' : Term := (Term.app "call" [wrap', (Term.sym "regex.subn")]);
  let eff6 : Term := (Term.app "setattr" [(Term.sym "self"), (Term.sym "subn"), attr6_1']);
  Out.fall [eff0, eff1, eff2, eff3, eff4, eff5, eff6]

/-- the decorators of dataiter/vector.py: ReProxy.__init__, outermost first -/
def ReProxy_init_decorators : List String := []

/-- the signature of dataiter/vector.py: ReProxy.__init__: parameters in order, with the source text of their defaults -/
def ReProxy_init_signature : List String := ["self", "vector"]

/-- the calls of dataiter/vector.py: ReProxy.__init__ in the order Python makes them along the source text -/
def ReProxy_init_call_order : List String := ["wrap", "wrap", "wrap", "wrap", "wrap", "wrap", "wrap"]

/-- dataiter/vector.py: StrProxy.__init__ (sha256 of the function source: b47c2036e6dfc70f) -/
def StrProxy_init (truth : Term → Bool) : Out :=
  let wrap' : Term := (Term.app "lambda" [(Term.app "params" [(Term.sym "name")]), (Term.app "as_vector" [(Term.app "functools.partial" [(Term.app "getattr" [(Term.sym "np.strings"), (Term.sym "name"), (Term.sym "not_implemented")]), (Term.sym "vector")])])]);
  let attr0_1' : Term := (Term.app "call" [wrap', (Term.sym "'add'")]);
  let eff0 : Term := (Term.app "setattr" [(Term.sym "self"), (Term.sym "add"), attr0_1']);
  let attr1_1' : Term := (Term.app "call" [wrap', (Term.sym "'capitalize'")]);
  let eff1 : Term := (Term.app "setattr" [(Term.sym "self"), (Term.sym "capitalize"), attr1_1']);
  let attr2_1' : Term := (Term.app "call" [wrap', (Term.sym "'center'")]);
  let eff2 : Term := (Term.app "setattr" [(Term.sym "self"), (Term.sym "center"), attr2_1']);
  let attr3_1' : Term := (Term.app "call" [wrap', (Term.sym "'count'")]);
  let eff3 : Term := (Term.app "setattr" [(Term.sym "self"), (Term.sym "count"), attr3_1']);
  let attr4_1' : Term := (Term.app "call" [wrap', (Term.sym "'decode'")]);
  let eff4 : Term := (Term.app "setattr" [(Term.sym "self"), (Term.sym "decode"), attr4_1']);
  let attr5_1' : Term := (Term.app "call" [wrap', (Term.sym "'encode'")]);
  let eff5 : Term := (Term.app "setattr" [(Term.sym "self"), (Term.sym "encode"), attr5_1']);
  let attr6_1' : Term := (Term.app "call" [wrap', (Term.sym "'endswith'")]);
  let eff6 : Term := (Term.app "setattr" [(Term.sym "self"), (Term.sym "endswith"), attr6_1']);
  let attr7_1' : Term := (Term.app "call" [wrap', (Term.sym "'equal'")]);
  let eff7 : Term := (Term.app "setattr" [(Term.sym "self"), (Term.sym "equal"), attr7_1']);
  let attr8_1' : Term := (Term.app "call" [wrap', (Term.sym "'expandtabs'")]);
  let eff8 : Term := (Term.app "setattr" [(Term.sym "self"), (Term.sym "expandtabs"), attr8_1']);
  let attr9_1' : Term := (Term.app "call" [wrap', (Term.sym "'find'")]);
  let eff9 : Term := (Term.app "setattr" [(Term.sym "self"), (Term.sym "find"), attr9_1']);
  let attr10_1' : Term := (Term.app "call" [wrap', (Term.sym "'greater'")]);
  let eff10 : Term := (Term.app "setattr" [(Term.sym "self"), (Term.sym "greater"), attr10_1']);
  let attr11_1' : Term := (Term.app "call" [wrap', (Term.sym "'greater_equal'")]);
  let eff11 : Term := (Term.app "setattr" [(Term.sym "self"), (Term.sym "greater_equal"), attr11_1']);
  let attr12_1' : Term := (Term.app "call" [wrap', (Term.sym "'index'")]);
  let eff12 : Term := (Term.app "setattr" [(Term.sym "self"), (Term.sym "index"), attr12_1']);
  let attr13_1' : Term := (Term.app "call" [wrap', (Term.sym "'isalnum'")]);
  let eff13 : Term := (Term.app "setattr" [(Term.sym "self"), (Term.sym "isalnum"), attr13_1']);
  let attr14_1' : Term := (Term.app "call" [wrap', (Term.sym "'isalpha'")]);
  let eff14 : Term := (Term.app "setattr" [(Term.sym "self"), (Term.sym "isalpha"), attr14_1']);
  let attr15_1' : Term := (Term.app "call" [wrap', (Term.sym "'isdecimal'")]);
  let eff15 : Term := (Term.app "setattr" [(Term.sym "self"), (Term.sym "isdecimal"), attr15_1']);
  let attr16_1' : Term := (Term.app "call" [wrap', (Term.sym "'isdigit'")]);
  let eff16 : Term := (Term.app "setattr" [(Term.sym "self"), (Term.sym "isdigit"), attr16_1']);
  let attr17_1' : Term := (Term.app "call" [wrap', (Term.sym "'islower'")]);
  let eff17 : Term := (Term.app "setattr" [(Term.sym "self"), (Term.sym "islower"), attr17_1']);
  let attr18_1' : Term := (Term.app "call" [wrap', (Term.sym "'isnumeric'")]);
  let eff18 : Term := (Term.app "setattr" [(Term.sym "self"), (Term.sym "isnumeric"), attr18_1']);
  let attr19_1' : Term := (Term.app "call" [wrap', (Term.sym "'isspace'")]);
  let eff19 : Term := (Term.app "setattr" [(Term.sym "self"), (Term.sym "isspace"), attr19_1']);
  let attr20_1' : Term := (Term.app "call" [wrap', (Term.sym "'istitle'")]);
  let eff20 : Term := (Term.app "setattr" [(Term.sym "self"), (Term.sym "istitle"), attr20_1']);
  let attr21_1' : Term := (Term.app "call" [wrap', (Term.sym "'isupper'")]);
  let eff21 : Term := (Term.app "setattr" [(Term.sym "self"), (Term.sym "isupper"), attr21_1']);
  let attr22_1' : Term := (Term.app "call" [wrap', (Term.sym "'less'")]);
  let eff22 : Term := (Term.app "setattr" [(Term.sym "self"), (Term.sym "less"), attr22_1']);
  let attr23_1' : Term := (Term.app "call" [wrap', (Term.sym "'less_equal'")]);
  let eff23 : Term := (Term.app "setattr" [(Term.sym "self"), (Term.sym "less_equal"), attr23_1']);
  let attr24_1' : Term := (Term.app "call" [wrap', (Term.sym "'ljust'")]);
  let eff24 : Term := (Term.app "setattr" [(Term.sym "self"), (Term.sym "ljust"), attr24_1']);
  let attr25_1' : Term := (Term.app "call" [wrap', (Term.sym "'lower'")]);
  let eff25 : Term := (Term.app "setattr" [(Term.sym "self"), (Term.sym "lower"), attr25_1']);
  let attr26_1' : Term := (Term.app "call" [wrap', (Term.sym "'lstrip'")]);
  let eff26 : Term := (Term.app "setattr" [(Term.sym "self"), (Term.sym "lstrip"), attr26_1']);
  let attr27_1' : Term := (Term.app "call" [wrap', (Term.sym "'mod'")]);
  let eff27 : Term := (Term.app "setattr" [(Term.sym "self"), (Term.sym "mod"), attr27_1']);
  let attr28_1' : Term := (Term.app "call" [wrap', (Term.sym "'multiply'")]);
  let eff28 : Term := (Term.app "setattr" [(Term.sym "self"), (Term.sym "multiply"), attr28_1']);
  let attr29_1' : Term := (Term.app "call" [wrap', (Term.sym "'not_equal'")]);
  let eff29 : Term := (Term.app "setattr" [(Term.sym "self"), (Term.sym "not_equal"), attr29_1']);
  let attr30_1' : Term := (Term.app "call" [wrap', (Term.sym "'replace'")]);
  let eff30 : Term := (Term.app "setattr" [(Term.sym "self"), (Term.sym "replace"), attr30_1']);
  let attr31_1' : Term := (Term.app "call" [wrap', (Term.sym "'rfind'")]);
  let eff31 : Term := (Term.app "setattr" [(Term.sym "self"), (Term.sym "rfind"), attr31_1']);
  let attr32_1' : Term := (Term.app "call" [wrap', (Term.sym "'rindex'")]);
  let eff32 : Term := (Term.app "setattr" [(Term.sym "self"), (Term.sym "rindex"), attr32_1']);
  let attr33_1' : Term := (Term.app "call" [wrap', (Term.sym "'rjust'")]);
  let eff33 : Term := (Term.app "setattr" [(Term.sym "self"), (Term.sym "rjust"), attr33_1']);
  let attr34_1' : Term := (Term.app "call" [wrap', (Term.sym "'rstrip'")]);
  let eff34 : Term := (Term.app "setattr" [(Term.sym "self"), (Term.sym "rstrip"), attr34_1']);
  let attr35_1' : Term := (Term.app "call" [wrap', (Term.sym "'startswith'")]);
  let eff35 : Term := (Term.app "setattr" [(Term.sym "self"), (Term.sym "startswith"), attr35_1']);
  let attr36_1' : Term := (Term.app "call" [wrap', (Term.sym "'str_len'")]);
  let eff36 : Term := (Term.app "setattr" [(Term.sym "self"), (Term.sym "str_len"), attr36_1']);
  let attr37_1' : Term := (Term.app "call" [wrap', (Term.sym "'strip'")]);
  let eff37 : Term := (Term.app "setattr" [(Term.sym "self"), (Term.sym "strip"), attr37_1']);
  let attr38_1' : Term := (Term.app "call" [wrap', (Term.sym "'swapcase'")]);
  let eff38 : Term := (Term.app "setattr" [(Term.sym "self"), (Term.sym "swapcase"), attr38_1']);
  let attr39_1' : Term := (Term.app "call" [wrap', (Term.sym "'title'")]);
  let eff39 : Term := (Term.app "setattr" [(Term.sym "self"), (Term.sym "title"), attr39_1']);
  let attr40_1' : Term := (Term.app "call" [wrap', (Term.sym "'translate'")]);
  let eff40 : Term := (Term.app "setattr" [(Term.sym "self"), (Term.sym "translate"), attr40_1']);
  let attr41_1' : Term := (Term.app "call" [wrap', (Term.sym "'upper'")]);
  let eff41 : Term := (Term.app "setattr" [(Term.sym "self"), (Term.sym "upper"), attr41_1']);
  let attr42_1' : Term := (Term.app "call" [wrap', (Term.sym "'zfill'")]);
  let eff42 : Term := (Term.app "setattr" [(Term.sym "self"), (Term.sym "zfill"), attr42_1']);
  Out.fall [eff0, eff1, eff2, eff3, eff4, eff5, eff6, eff7, eff8, eff9, eff10, eff11, eff12, eff13, eff14, eff15, eff16, eff17, eff18, eff19, eff20, eff21, eff22, eff23, eff24, eff25, eff26, eff27, eff28, eff29, eff30, eff31, eff32, eff33, eff34, eff35, eff36, eff37, eff38, eff39, eff40, eff41, eff42]

/-- the decorators of dataiter/vector.py: StrProxy.__init__, outermost first -/
def StrProxy_init_decorators : List String := []

/-- the signature of dataiter/vector.py: StrProxy.__init__: parameters in order, with the source text of their defaults -/
def StrProxy_init_signature : List String := ["self", "vector"]

/-- the calls of dataiter/vector.py: StrProxy.__init__ in the order Python makes them along the source text -/
def StrProxy_init_call_order : List String := ["wrap", "wrap", "wrap", "wrap", "wrap", "wrap", "wrap", "wrap", "wrap", "wrap", "wrap", "wrap", "wrap", "wrap", "wrap", "wrap", "wrap", "wrap", "wrap", "wrap", "wrap", "wrap", "wrap", "wrap", "wrap", "wrap", "wrap", "wrap", "wrap", "wrap", "wrap", "wrap", "wrap", "wrap", "wrap", "wrap", "wrap", "wrap", "wrap", "wrap", "wrap", "wrap", "wrap"]

/-- dataiter/vector.py: Vector.dt (sha256 of the function source: d796f1bb9c2023d8) -/
def Vector_dt (truth : Term → Bool) : Out :=
  if (!truth (Term.app "hasattr" [(Term.sym "self"), (Term.sym "'_dt'")])) then
    let attr0_2' : Term := (Term.app "DtProxy" [(Term.sym "self")]);
    let eff0 : Term := (Term.app "setattr" [(Term.sym "self"), (Term.sym "_dt"), attr0_2']);
    Out.ret [eff0] attr0_2'
  else
    Out.ret [] (Term.app "._dt" [(Term.sym "self")])

/-- the decorators of dataiter/vector.py: Vector.dt, outermost first -/
def Vector_dt_decorators : List String := ["property"]

/-- the signature of dataiter/vector.py: Vector.dt: parameters in order, with the source text of their defaults -/
def Vector_dt_signature : List String := ["self"]

/-- the calls of dataiter/vector.py: Vector.dt in the order Python makes them along the source text -/
def Vector_dt_call_order : List String := ["hasattr", "DtProxy"]

/-- dataiter/vector.py: Vector.re (sha256 of the function source: 7dc00034c30e2e66) -/
def Vector_re (truth : Term → Bool) : Out :=
  if (!truth (Term.app "hasattr" [(Term.sym "self"), (Term.sym "'_re'")])) then
    let attr0_2' : Term := (Term.app "ReProxy" [(Term.sym "self")]);
    let eff0 : Term := (Term.app "setattr" [(Term.sym "self"), (Term.sym "_re"), attr0_2']);
    Out.ret [eff0] attr0_2'
  else
    Out.ret [] (Term.app "._re" [(Term.sym "self")])

/-- the decorators of dataiter/vector.py: Vector.re, outermost first -/
def Vector_re_decorators : List String := ["property"]

/-- the signature of dataiter/vector.py: Vector.re: parameters in order, with the source text of their defaults -/
def Vector_re_signature : List String := ["self"]

/-- the calls of dataiter/vector.py: Vector.re in the order Python makes them along the source text -/
def Vector_re_call_order : List String := ["hasattr", "ReProxy"]

/-- dataiter/vector.py: Vector.str (sha256 of the function source: bed433c591e2d6ca) -/
def Vector_str (truth : Term → Bool) : Out :=
  if (!truth (Term.app "hasattr" [(Term.sym "self"), (Term.sym "'_str'")])) then
    let attr0_2' : Term := (Term.app "StrProxy" [(Term.sym "self")]);
    let eff0 : Term := (Term.app "setattr" [(Term.sym "self"), (Term.sym "_str"), attr0_2']);
    Out.ret [eff0] attr0_2'
  else
    Out.ret [] (Term.app "._str" [(Term.sym "self")])

/-- the decorators of dataiter/vector.py: Vector.str, outermost first -/
def Vector_str_decorators : List String := ["property"]

/-- the signature of dataiter/vector.py: Vector.str: parameters in order, with the source text of their defaults -/
def Vector_str_signature : List String := ["self"]

/-- the calls of dataiter/vector.py: Vector.str in the order Python makes them along the source text -/
def Vector_str_call_order : List String := ["hasattr", "StrProxy"]

/-- dataiter/vector.py: as_vector (sha256 of the function source: ce15b1719feea61b) -/
def vector_as_vector (truth : Term → Bool) : Out :=
  let wrapper' : Term := (Term.app "local-def" [(Term.app "def" [(Term.app "decorator" [(Term.app "functools.wraps" [(Term.sym "function")])]), (Term.sym "wrapper"), (Term.app "params" [(Term.sym "*args"), (Term.sym "**kwargs")]), (Term.app "block" [(Term.app "assign" [(Term.sym "array"), (Term.app "function" [(Term.app "*" [(Term.sym "args")]), (Term.app "=**" [(Term.sym "kwargs")])])]), (Term.app "return" [(Term.app ".view" [(Term.sym "array"), (Term.sym "Vector")])])])])]);
  Out.ret [] wrapper'

/-- the decorators of dataiter/vector.py: as_vector, outermost first -/
def vector_as_vector_decorators : List String := []

/-- the signature of dataiter/vector.py: as_vector: parameters in order, with the source text of their defaults -/
def vector_as_vector_signature : List String := ["function"]

/-- the calls of dataiter/vector.py: as_vector in the order Python makes them along the source text -/
def vector_as_vector_call_order : List String := []

/-- dataiter/vector.py: as_vector.wrapper (sha256 of the function source: a94c7abc8e96cbda) -/
def vector_as_vector_wrapper (truth : Term → Bool) : Out :=
  let array' : Term := (Term.app "function" [(Term.app "*" [(Term.sym "args")]), (Term.app "=**" [(Term.sym "kwargs")])]);
  Out.ret [] (Term.app ".view" [array', (Term.sym "Vector")])

/-- the decorators of dataiter/vector.py: as_vector.wrapper, outermost first -/
def vector_as_vector_wrapper_decorators : List String := ["functools.wraps(function)"]

/-- the signature of dataiter/vector.py: as_vector.wrapper: parameters in order, with the source text of their defaults -/
def vector_as_vector_wrapper_signature : List String := ["*args", "**kwargs"]

/-- the calls of dataiter/vector.py: as_vector.wrapper in the order Python makes them along the source text -/
def vector_as_vector_wrapper_call_order : List String := ["function", "array.view"]

end DI.Gen

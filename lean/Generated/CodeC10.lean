/-
  Generated/CodeC10.lean — REGENERATED on every run by harness/py2lean.py from the current source of
  /repo (symbolic execution of small control-flow functions; see Model/PyCore.lean).  Do not edit.
-/
import Model.PyCore

set_option linter.unusedVariables false

namespace DI.Gen

open DI.Py

/-- dataiter/vector.py: Vector.na_value (sha256 of the function source: ff928a93731df29a) -/
def Vector_na_value (truth : Term → Bool) : Out :=
  if truth (Term.app ".is_datetime" [(Term.sym "self")]) then
    Out.ret [] (Term.app "np.datetime64" [(Term.sym "'NaT'")])
  else
    if truth (Term.app ".is_timedelta" [(Term.sym "self")]) then
      Out.ret [] (Term.app "np.timedelta64" [(Term.sym "'NaT'")])
    else
      if truth (Term.app ".is_float" [(Term.sym "self")]) then
        Out.ret [] (Term.sym "np.nan")
      else
        if truth (Term.app ".is_integer" [(Term.sym "self")]) then
          Out.ret [] (Term.sym "np.nan")
        else
          if (truth (Term.app ".is_string" [(Term.sym "self")]) || truth (Term.app "._is_string_fixed" [(Term.sym "self")])) then
            Out.ret [] (Term.sym "dtypes.string.na_object")
          else
            Out.ret [] (Term.sym "None")

/-- dataiter/vector.py: Vector.na_dtype (sha256 of the function source: dd4bad661e423266) -/
def Vector_na_dtype (truth : Term → Bool) : Out :=
  if truth (Term.app ".is_datetime" [(Term.sym "self")]) then
    Out.ret [] (Term.app ".dtype" [(Term.sym "self")])
  else
    if truth (Term.app ".is_timedelta" [(Term.sym "self")]) then
      Out.ret [] (Term.app ".dtype" [(Term.sym "self")])
    else
      if truth (Term.app ".is_float" [(Term.sym "self")]) then
        Out.ret [] (Term.app ".dtype" [(Term.sym "self")])
      else
        if truth (Term.app ".is_integer" [(Term.sym "self")]) then
          Out.ret [] (Term.sym "float")
        else
          if (truth (Term.app ".is_string" [(Term.sym "self")]) || truth (Term.app "._is_string_fixed" [(Term.sym "self")])) then
            Out.ret [] (Term.app ".dtype" [(Term.sym "self")])
          else
            Out.ret [] (Term.sym "object")

end DI.Gen

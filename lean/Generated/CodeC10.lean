/-
  Generated/CodeC10.lean — REGENERATED on every run by harness/py2lean.py from the current source of
  /repo (symbolic execution of small control-flow functions; see Model/PyCore.lean).  Do not edit.
-/
import Model.PyCore

set_option linter.unusedVariables false

namespace DI.Gen

open DI.Py

/-- dataiter/vector.py: Vector.na_value (sha256 of the function source: ff928a93731df29a) -/
def Vector_na_value (truth : Term → Bool) : Out :=
  if truth (Term.app ".is_datetime" [(Term.sym "self")]) then
    Out.ret [] (Term.app "np.datetime64" [(Term.sym "'NaT'")])
  else
    if truth (Term.app ".is_timedelta" [(Term.sym "self")]) then
      Out.ret [] (Term.app "np.timedelta64" [(Term.sym "'NaT'")])
    else
      if truth (Term.app ".is_float" [(Term.sym "self")]) then
        Out.ret [] (Term.sym "np.nan")
      else
        if truth (Term.app ".is_integer" [(Term.sym "self")]) then
          Out.ret [] (Term.sym "np.nan")
        else
          if (truth (Term.app ".is_string" [(Term.sym "self")]) || truth (Term.app "._is_string_fixed" [(Term.sym "self")])) then
            Out.ret [] (Term.sym "dtypes.string.na_object")
          else
            Out.ret [] (Term.sym "None")

/-- the decorators of dataiter/vector.py: Vector.na_value, outermost first -/
def Vector_na_value_decorators : List String := ["property"]

/-- the signature of dataiter/vector.py: Vector.na_value: parameters in order, with the source text of their defaults -/
def Vector_na_value_signature : List String := ["self"]

/-- the calls of dataiter/vector.py: Vector.na_value in the order Python makes them along the source text -/
def Vector_na_value_call_order : List String := ["self.is_datetime", "np.datetime64", "self.is_timedelta", "np.timedelta64", "self.is_float", "self.is_integer", "self.is_string", "self._is_string_fixed"]

/-- dataiter/vector.py: Vector.na_dtype (sha256 of the function source: dd4bad661e423266) -/
def Vector_na_dtype (truth : Term → Bool) : Out :=
  if truth (Term.app ".is_datetime" [(Term.sym "self")]) then
    Out.ret [] (Term.app ".dtype" [(Term.sym "self")])
  else
    if truth (Term.app ".is_timedelta" [(Term.sym "self")]) then
      Out.ret [] (Term.app ".dtype" [(Term.sym "self")])
    else
      if truth (Term.app ".is_float" [(Term.sym "self")]) then
        Out.ret [] (Term.app ".dtype" [(Term.sym "self")])
      else
        if truth (Term.app ".is_integer" [(Term.sym "self")]) then
          Out.ret [] (Term.sym "float")
        else
          if (truth (Term.app ".is_string" [(Term.sym "self")]) || truth (Term.app "._is_string_fixed" [(Term.sym "self")])) then
            Out.ret [] (Term.app ".dtype" [(Term.sym "self")])
          else
            Out.ret [] (Term.sym "object")

/-- the decorators of dataiter/vector.py: Vector.na_dtype, outermost first -/
def Vector_na_dtype_decorators : List String := ["property"]

/-- the signature of dataiter/vector.py: Vector.na_dtype: parameters in order, with the source text of their defaults -/
def Vector_na_dtype_signature : List String := ["self"]

/-- the calls of dataiter/vector.py: Vector.na_dtype in the order Python makes them along the source text -/
def Vector_na_dtype_call_order : List String := ["self.is_datetime", "self.is_timedelta", "self.is_float", "self.is_integer", "self.is_string", "self._is_string_fixed"]

/-- dataiter/vector.py: Vector.is_na (sha256 of the function source: 489b24035d441d9d) -/
def Vector_is_na (truth : Term → Bool) : Out :=
  if truth (Term.app ".is_datetime" [(Term.sym "self")]) then
    Out.ret [] (Term.app "np.isnat" [(Term.sym "self")])
  else
    if truth (Term.app ".is_timedelta" [(Term.sym "self")]) then
      Out.ret [] (Term.app "np.isnat" [(Term.sym "self")])
    else
      if truth (Term.app ".is_float" [(Term.sym "self")]) then
        Out.ret [] (Term.app "np.isnan" [(Term.sym "self")])
      else
        if (truth (Term.app ".is_string" [(Term.sym "self")]) || truth (Term.app "._is_string_fixed" [(Term.sym "self")])) then
          Out.ret [] (Term.app "Eq" [(Term.sym "self"), (Term.sym "dtypes.string.na_object")])
        else
          Out.ret [] (Term.app ".fast" [(Term.sym "self"), (Term.app "ListComp" [(Term.app "Is" [(Term.sym "x"), (Term.sym "None")]), (Term.app "in" [(Term.sym "x"), (Term.sym "self"), (Term.app "if" [])])]), (Term.sym "bool")])

/-- the decorators of dataiter/vector.py: Vector.is_na, outermost first -/
def Vector_is_na_decorators : List String := []

/-- the signature of dataiter/vector.py: Vector.is_na: parameters in order, with the source text of their defaults -/
def Vector_is_na_signature : List String := ["self"]

/-- the calls of dataiter/vector.py: Vector.is_na in the order Python makes them along the source text -/
def Vector_is_na_call_order : List String := ["self.is_datetime", "np.isnat", "self.is_timedelta", "np.isnat", "self.is_float", "np.isnan", "self.is_string", "self._is_string_fixed", "self.fast"]

/-- dataiter/vector.py: Vector.drop_na (sha256 of the function source: 94a4d2b6c906399e) -/
def Vector_drop_na (truth : Term → Bool) : Out :=
  Out.ret [] (Term.app ".copy" [(Term.app "getitem" [(Term.sym "self"), (Term.app "~" [(Term.app ".is_na" [(Term.sym "self")])])])])

/-- the decorators of dataiter/vector.py: Vector.drop_na, outermost first -/
def Vector_drop_na_decorators : List String := []

/-- the signature of dataiter/vector.py: Vector.drop_na: parameters in order, with the source text of their defaults -/
def Vector_drop_na_signature : List String := ["self"]

/-- the calls of dataiter/vector.py: Vector.drop_na in the order Python makes them along the source text -/
def Vector_drop_na_call_order : List String := ["self.is_na", "self[~self.is_na()].copy"]

/-- dataiter/vector.py: Vector.tolist (sha256 of the function source: 6c6b05c5c3a558ee) -/
def Vector_tolist (truth : Term → Bool) : Out :=
  Out.ret [] (Term.app ".tolist" [(Term.app "np.where" [(Term.app ".is_na" [(Term.sym "self")]), (Term.sym "None"), (Term.sym "self")])])

/-- the decorators of dataiter/vector.py: Vector.tolist, outermost first -/
def Vector_tolist_decorators : List String := []

/-- the signature of dataiter/vector.py: Vector.tolist: parameters in order, with the source text of their defaults -/
def Vector_tolist_signature : List String := ["self"]

/-- the calls of dataiter/vector.py: Vector.tolist in the order Python makes them along the source text -/
def Vector_tolist_call_order : List String := ["self.is_na", "np.where", "np.where(self.is_na(), None, self).tolist"]

/-- dataiter/vector.py: Vector.equal (sha256 of the function source: e933f960452bc821) -/
def Vector_equal (truth : Term → Bool) (self_length : Int) (other_length : Int) : Out :=
  if (!(truth (Term.app "isinstance" [(Term.sym "other"), (Term.sym "Vector")]) && decide (self_length = other_length) && truth (Term.app "Eq" [(Term.app "str" [(Term.app ".na_value" [(Term.sym "self")])]), (Term.app "str" [(Term.app ".na_value" [(Term.sym "other")])])]))) then
    Out.ret [] (Term.sym "False")
  else
    let ii' : Term := (Term.app ".is_na" [(Term.sym "self")]);
    let jj' : Term := (Term.app ".is_na" [(Term.sym "other")]);
    Out.ret [] (Term.app "And" [(Term.app "np.all" [(Term.app "Eq" [ii', jj'])]), (Term.app "np.all" [(Term.app "Eq" [(Term.app "getitem" [(Term.sym "self"), (Term.app "~" [ii'])]), (Term.app "getitem" [(Term.sym "other"), (Term.app "~" [jj'])])])])])

/-- the decorators of dataiter/vector.py: Vector.equal, outermost first -/
def Vector_equal_decorators : List String := []

/-- the signature of dataiter/vector.py: Vector.equal: parameters in order, with the source text of their defaults -/
def Vector_equal_signature : List String := ["self", "other"]

/-- the calls of dataiter/vector.py: Vector.equal in the order Python makes them along the source text -/
def Vector_equal_call_order : List String := ["isinstance", "str", "str", "self.is_na", "other.is_na", "np.all", "np.all"]

/-- dataiter/vector.py: Vector.__new__ (sha256 of the function source: 5ce355c1ace78b5e) -/
def Vector_new (truth : Term → Bool) : Out :=
  let dtype' : Term := (Term.app "._map_input_dtype" [(Term.sym "cls"), (Term.sym "dtype")]);
  if truth (Term.app "isinstance" [(Term.sym "object"), (Term.sym "np.ndarray")]) then
    let dtype' : Term := (Term.app "Or" [dtype', (Term.app ".dtype" [(Term.sym "object")])]);
    Out.ret [] (Term.app ".view" [(Term.app "._np_array" [(Term.sym "cls"), (Term.sym "object"), dtype']), (Term.sym "cls")])
  else
    let object' : Term := (Term.app "util.sequencify" [(Term.sym "object")]);
    Out.ret [] (Term.app ".view" [(Term.app "._std_to_np" [(Term.sym "cls"), object', dtype']), (Term.sym "cls")])

/-- the decorators of dataiter/vector.py: Vector.__new__, outermost first -/
def Vector_new_decorators : List String := []

/-- the signature of dataiter/vector.py: Vector.__new__: parameters in order, with the source text of their defaults -/
def Vector_new_signature : List String := ["cls", "object", "dtype=None"]

/-- the calls of dataiter/vector.py: Vector.__new__ in the order Python makes them along the source text -/
def Vector_new_call_order : List String := ["cls._map_input_dtype", "isinstance", "cls._np_array", "cls._np_array(object, dtype).view", "util.sequencify", "cls._std_to_np", "cls._std_to_np(object, dtype).view"]

/-- dataiter/vector.py: Vector.__init__ (sha256 of the function source: d8717f4944824991) -/
def Vector_init (truth : Term → Bool) : Out :=
  let eff0 : Term := (Term.app "._check_dimensions" [(Term.sym "self")]);
  Out.fall [eff0]

/-- the decorators of dataiter/vector.py: Vector.__init__, outermost first -/
def Vector_init_decorators : List String := []

/-- the signature of dataiter/vector.py: Vector.__init__: parameters in order, with the source text of their defaults -/
def Vector_init_signature : List String := ["self", "object", "dtype=None"]

/-- the calls of dataiter/vector.py: Vector.__init__ in the order Python makes them along the source text -/
def Vector_init_call_order : List String := ["self._check_dimensions"]

/-- dataiter/vector.py: Vector.fast (sha256 of the function source: 6168ee5af4e8e1be) -/
def Vector_fast (truth : Term → Bool) : Out :=
  let dtype' : Term := (Term.app "._map_input_dtype" [(Term.sym "cls"), (Term.sym "dtype")]);
  if truth (Term.app "isinstance" [(Term.sym "object"), (Term.sym "np.ndarray")]) then
    let dtype' : Term := (Term.app "Or" [dtype', (Term.app ".dtype" [(Term.sym "object")])]);
    let object' : Term := (Term.app "util.sequencify" [(Term.sym "object")]);
    Out.ret [] (Term.app ".view" [(Term.app "._np_array" [(Term.sym "cls"), object', dtype']), (Term.sym "cls")])
  else
    let object' : Term := (Term.app "util.sequencify" [(Term.sym "object")]);
    Out.ret [] (Term.app ".view" [(Term.app "._np_array" [(Term.sym "cls"), object', dtype']), (Term.sym "cls")])

/-- the decorators of dataiter/vector.py: Vector.fast, outermost first -/
def Vector_fast_decorators : List String := ["classmethod"]

/-- the signature of dataiter/vector.py: Vector.fast: parameters in order, with the source text of their defaults -/
def Vector_fast_signature : List String := ["cls", "object", "dtype=None"]

/-- the calls of dataiter/vector.py: Vector.fast in the order Python makes them along the source text -/
def Vector_fast_call_order : List String := ["cls._map_input_dtype", "isinstance", "util.sequencify", "cls._np_array", "cls._np_array(object, dtype).view"]

/-- dataiter/vector.py: Vector._np_array (sha256 of the function source: 06f78005325a2d0e) -/
def Vector_np_array (truth : Term → Bool) (dtype_is_None : Bool) : Out :=
  if dtype_is_None then
    if (truth (Term.sym "object") && truth (Term.app "isinstance" [(Term.app "getitem" [(Term.sym "object"), (Term.int (0 : Int))]), (Term.sym "str")])) then
      let dtype' : Term := (Term.sym "dtypes.string");
      let dtype' : Term := (Term.app "._map_input_dtype" [(Term.sym "cls"), dtype']);
      let array' : Term := (Term.app "np.array" [(Term.sym "object"), dtype']);
      if truth (Term.app "Is" [dtype', (Term.sym "None")]) then
        if truth (Term.app "np.issubdtype" [(Term.app ".dtype" [array']), (Term.sym "np.str_")]) then
          let array' : Term := (Term.app ".astype" [array', (Term.sym "dtypes.string")]);
          Out.ret [] array'
        else
          Out.ret [] array'
      else
        Out.ret [] array'
    else
      let dtype' : Term := (Term.app "._map_input_dtype" [(Term.sym "cls"), (Term.sym "dtype")]);
      let array' : Term := (Term.app "np.array" [(Term.sym "object"), dtype']);
      if truth (Term.app "Is" [dtype', (Term.sym "None")]) then
        if truth (Term.app "np.issubdtype" [(Term.app ".dtype" [array']), (Term.sym "np.str_")]) then
          let array' : Term := (Term.app ".astype" [array', (Term.sym "dtypes.string")]);
          Out.ret [] array'
        else
          Out.ret [] array'
      else
        Out.ret [] array'
  else
    let dtype' : Term := (Term.app "._map_input_dtype" [(Term.sym "cls"), (Term.sym "dtype")]);
    let array' : Term := (Term.app "np.array" [(Term.sym "object"), dtype']);
    if truth (Term.app "Is" [dtype', (Term.sym "None")]) then
      if truth (Term.app "np.issubdtype" [(Term.app ".dtype" [array']), (Term.sym "np.str_")]) then
        let array' : Term := (Term.app ".astype" [array', (Term.sym "dtypes.string")]);
        Out.ret [] array'
      else
        Out.ret [] array'
    else
      Out.ret [] array'

/-- the decorators of dataiter/vector.py: Vector._np_array, outermost first -/
def Vector_np_array_decorators : List String := ["classmethod"]

/-- the signature of dataiter/vector.py: Vector._np_array: parameters in order, with the source text of their defaults -/
def Vector_np_array_signature : List String := ["cls", "object", "dtype=None"]

/-- the calls of dataiter/vector.py: Vector._np_array in the order Python makes them along the source text -/
def Vector_np_array_call_order : List String := ["isinstance", "cls._map_input_dtype", "np.array", "np.issubdtype", "array.astype"]

/-- dataiter/vector.py: Vector._std_to_np (sha256 of the function source: bd4eab74acb7778f) -/
def Vector_std_to_np (truth : Term → Bool) : Out :=
  let dtype' : Term := (Term.app "._map_input_dtype" [(Term.sym "cls"), (Term.sym "dtype")]);
  let types' : Term := (Term.app "util.unique_types" [(Term.sym "seq")]);
  if truth (Term.app "IsNot" [dtype', (Term.sym "None")]) then
    let na' : Term := (Term.app ".na_value" [(Term.app "Vector.fast" [(Term.app "list" []), dtype'])]);
    let seq' : Term := (Term.app "ListComp" [(Term.app "ifexp" [(Term.app "Or" [(Term.app "Is" [(Term.sym "x"), (Term.sym "None")]), (Term.app "And" [(Term.app "isinstance" [(Term.sym "x"), (Term.sym "float")]), (Term.app "np.isnan" [(Term.sym "x")])])]), na', (Term.sym "x")]), (Term.app "in" [(Term.sym "x"), (Term.sym "seq"), (Term.app "if" [])])]);
    if truth (Term.app "IsNot" [dtype', (Term.sym "None")]) then
      if (truth (Term.app "np.issubdtype" [dtype', (Term.sym "np.integer")]) && truth (Term.app "In" [(Term.sym "np.nan"), seq'])) then
        let dtype' : Term := (Term.sym "float");
        Out.ret [] (Term.app "._np_array" [(Term.sym "cls"), seq', dtype'])
      else
        Out.ret [] (Term.app "._np_array" [(Term.sym "cls"), seq', dtype'])
    else
      let eff0 : Term := (Term.app ".discard" [types', (Term.sym "np.datetime64")]);
      let eff1 : Term := (Term.app "for" [(Term.app "tuple" [(Term.sym "fm"), (Term.sym "to")]), (Term.app "TYPE_CONVERSIONS.items" []), (Term.app "block" [(Term.app "if" [(Term.app "And" [types', (Term.app "all" [(Term.app "GeneratorExp" [(Term.app "Eq" [(Term.sym "x"), (Term.sym "fm")]), (Term.app "in" [(Term.sym "x"), types', (Term.app "if" [])])])])]), (Term.app "block" [(Term.app "return" [(Term.app "._np_array" [(Term.sym "cls"), seq', (Term.sym "to")])])]), (Term.app "block" [])])])]);
      Out.ret [eff0, eff1] (Term.app "._np_array" [(Term.sym "cls"), seq', dtype'])
  else
    if (truth (Term.app "Eq" [(Term.app "len" [types']), (Term.int (1 : Int))]) && truth (Term.app "Eq" [(Term.app ".__module__" [(Term.app ".pop" [(Term.app ".copy" [types'])])]), (Term.sym "'numpy'")])) then
      let dtype' : Term := (Term.app ".dtype" [(Term.app "call" [(Term.app ".pop" [(Term.app ".copy" [types'])])])]);
      let na' : Term := (Term.app ".na_value" [(Term.app "Vector.fast" [(Term.app "list" []), dtype'])]);
      let seq' : Term := (Term.app "ListComp" [(Term.app "ifexp" [(Term.app "Or" [(Term.app "Is" [(Term.sym "x"), (Term.sym "None")]), (Term.app "And" [(Term.app "isinstance" [(Term.sym "x"), (Term.sym "float")]), (Term.app "np.isnan" [(Term.sym "x")])])]), na', (Term.sym "x")]), (Term.app "in" [(Term.sym "x"), (Term.sym "seq"), (Term.app "if" [])])]);
      if truth (Term.app "IsNot" [dtype', (Term.sym "None")]) then
        if (truth (Term.app "np.issubdtype" [dtype', (Term.sym "np.integer")]) && truth (Term.app "In" [(Term.sym "np.nan"), seq'])) then
          let dtype' : Term := (Term.sym "float");
          Out.ret [] (Term.app "._np_array" [(Term.sym "cls"), seq', dtype'])
        else
          Out.ret [] (Term.app "._np_array" [(Term.sym "cls"), seq', dtype'])
      else
        let eff0 : Term := (Term.app ".discard" [types', (Term.sym "np.datetime64")]);
        let eff1 : Term := (Term.app "for" [(Term.app "tuple" [(Term.sym "fm"), (Term.sym "to")]), (Term.app "TYPE_CONVERSIONS.items" []), (Term.app "block" [(Term.app "if" [(Term.app "And" [types', (Term.app "all" [(Term.app "GeneratorExp" [(Term.app "Eq" [(Term.sym "x"), (Term.sym "fm")]), (Term.app "in" [(Term.sym "x"), types', (Term.app "if" [])])])])]), (Term.app "block" [(Term.app "return" [(Term.app "._np_array" [(Term.sym "cls"), seq', (Term.sym "to")])])]), (Term.app "block" [])])])]);
        Out.ret [eff0, eff1] (Term.app "._np_array" [(Term.sym "cls"), seq', dtype'])
    else
      let na' : Term := (Term.app "._std_to_np_na_value" [(Term.sym "cls"), types']);
      let seq' : Term := (Term.app "ListComp" [(Term.app "ifexp" [(Term.app "Or" [(Term.app "Is" [(Term.sym "x"), (Term.sym "None")]), (Term.app "And" [(Term.app "isinstance" [(Term.sym "x"), (Term.sym "float")]), (Term.app "np.isnan" [(Term.sym "x")])])]), na', (Term.sym "x")]), (Term.app "in" [(Term.sym "x"), (Term.sym "seq"), (Term.app "if" [])])]);
      if truth (Term.app "IsNot" [dtype', (Term.sym "None")]) then
        if (truth (Term.app "np.issubdtype" [dtype', (Term.sym "np.integer")]) && truth (Term.app "In" [(Term.sym "np.nan"), seq'])) then
          let dtype' : Term := (Term.sym "float");
          Out.ret [] (Term.app "._np_array" [(Term.sym "cls"), seq', dtype'])
        else
          Out.ret [] (Term.app "._np_array" [(Term.sym "cls"), seq', dtype'])
      else
        let eff0 : Term := (Term.app ".discard" [types', (Term.sym "np.datetime64")]);
        let eff1 : Term := (Term.app "for" [(Term.app "tuple" [(Term.sym "fm"), (Term.sym "to")]), (Term.app "TYPE_CONVERSIONS.items" []), (Term.app "block" [(Term.app "if" [(Term.app "And" [types', (Term.app "all" [(Term.app "GeneratorExp" [(Term.app "Eq" [(Term.sym "x"), (Term.sym "fm")]), (Term.app "in" [(Term.sym "x"), types', (Term.app "if" [])])])])]), (Term.app "block" [(Term.app "return" [(Term.app "._np_array" [(Term.sym "cls"), seq', (Term.sym "to")])])]), (Term.app "block" [])])])]);
        Out.ret [eff0, eff1] (Term.app "._np_array" [(Term.sym "cls"), seq', dtype'])

/-- the decorators of dataiter/vector.py: Vector._std_to_np, outermost first -/
def Vector_std_to_np_decorators : List String := ["classmethod"]

/-- the signature of dataiter/vector.py: Vector._std_to_np: parameters in order, with the source text of their defaults -/
def Vector_std_to_np_signature : List String := ["cls", "seq", "dtype=None"]

/-- the calls of dataiter/vector.py: Vector._std_to_np in the order Python makes them along the source text -/
def Vector_std_to_np_call_order : List String := ["cls._map_input_dtype", "util.unique_types", "Vector.fast", "len", "types.copy", "types.copy().pop", "types.copy", "types.copy().pop", "types.copy().pop()", "Vector.fast", "cls._std_to_np_na_value", "isinstance", "np.isnan", "np.issubdtype", "cls._np_array", "types.discard", "TYPE_CONVERSIONS.items", "all", "cls._np_array", "cls._np_array"]

/-- dataiter/vector.py: Vector._std_to_np_na_value (sha256 of the function source: 4edd18ad35105380) -/
def Vector_std_to_np_na_value (truth : Term → Bool) : Out :=
  if (!truth (Term.sym "types")) then
    Out.ret [] (Term.sym "None")
  else
    if truth (Term.app "In" [(Term.sym "str"), (Term.sym "types")]) then
      Out.ret [] (Term.sym "dtypes.string.na_object")
    else
      if truth (Term.app "all" [(Term.app "GeneratorExp" [(Term.app "Or" [(Term.app "In" [(Term.sym "x"), (Term.app "list" [(Term.sym "float"), (Term.sym "int")])]), (Term.app "np.issubdtype" [(Term.sym "x"), (Term.sym "np.floating")]), (Term.app "np.issubdtype" [(Term.sym "x"), (Term.sym "np.integer")])]), (Term.app "in" [(Term.sym "x"), (Term.sym "types"), (Term.app "if" [])])])]) then
        Out.ret [] (Term.sym "np.nan")
      else
        let datetimes' : Term := (Term.app "list" [(Term.sym "datetime.date"), (Term.sym "datetime.datetime"), (Term.sym "np.datetime64")]);
        if truth (Term.app "all" [(Term.app "GeneratorExp" [(Term.app "In" [(Term.sym "x"), datetimes']), (Term.app "in" [(Term.sym "x"), (Term.sym "types"), (Term.app "if" [])])])]) then
          Out.ret [] (Term.app "np.datetime64" [(Term.sym "'NaT'")])
        else
          Out.ret [] (Term.sym "None")

/-- the decorators of dataiter/vector.py: Vector._std_to_np_na_value, outermost first -/
def Vector_std_to_np_na_value_decorators : List String := ["classmethod"]

/-- the signature of dataiter/vector.py: Vector._std_to_np_na_value: parameters in order, with the source text of their defaults -/
def Vector_std_to_np_na_value_signature : List String := ["cls", "types"]

/-- the calls of dataiter/vector.py: Vector._std_to_np_na_value in the order Python makes them along the source text -/
def Vector_std_to_np_na_value_call_order : List String := ["np.issubdtype", "np.issubdtype", "all", "all", "np.datetime64"]

/-- dataiter/vector.py: Vector.is_boolean (sha256 of the function source: 43be676d7504ea65) -/
def Vector_is_boolean (truth : Term → Bool) : Out :=
  Out.ret [] (Term.app "np.issubdtype" [(Term.app ".dtype" [(Term.sym "self")]), (Term.sym "np.bool_")])

/-- the decorators of dataiter/vector.py: Vector.is_boolean, outermost first -/
def Vector_is_boolean_decorators : List String := []

/-- the signature of dataiter/vector.py: Vector.is_boolean: parameters in order, with the source text of their defaults -/
def Vector_is_boolean_signature : List String := ["self"]

/-- the calls of dataiter/vector.py: Vector.is_boolean in the order Python makes them along the source text -/
def Vector_is_boolean_call_order : List String := ["np.issubdtype"]

/-- dataiter/vector.py: Vector.is_bytes (sha256 of the function source: 21be76ad56a307a9) -/
def Vector_is_bytes (truth : Term → Bool) : Out :=
  Out.ret [] (Term.app "np.issubdtype" [(Term.app ".dtype" [(Term.sym "self")]), (Term.sym "np.bytes_")])

/-- the decorators of dataiter/vector.py: Vector.is_bytes, outermost first -/
def Vector_is_bytes_decorators : List String := []

/-- the signature of dataiter/vector.py: Vector.is_bytes: parameters in order, with the source text of their defaults -/
def Vector_is_bytes_signature : List String := ["self"]

/-- the calls of dataiter/vector.py: Vector.is_bytes in the order Python makes them along the source text -/
def Vector_is_bytes_call_order : List String := ["np.issubdtype"]

/-- dataiter/vector.py: Vector.is_datetime (sha256 of the function source: 1c3808d4e03f67c3) -/
def Vector_is_datetime (truth : Term → Bool) : Out :=
  Out.ret [] (Term.app "np.issubdtype" [(Term.app ".dtype" [(Term.sym "self")]), (Term.sym "np.datetime64")])

/-- the decorators of dataiter/vector.py: Vector.is_datetime, outermost first -/
def Vector_is_datetime_decorators : List String := []

/-- the signature of dataiter/vector.py: Vector.is_datetime: parameters in order, with the source text of their defaults -/
def Vector_is_datetime_signature : List String := ["self"]

/-- the calls of dataiter/vector.py: Vector.is_datetime in the order Python makes them along the source text -/
def Vector_is_datetime_call_order : List String := ["np.issubdtype"]

/-- dataiter/vector.py: Vector.is_float (sha256 of the function source: be7dceb0003e7961) -/
def Vector_is_float (truth : Term → Bool) : Out :=
  Out.ret [] (Term.app "np.issubdtype" [(Term.app ".dtype" [(Term.sym "self")]), (Term.sym "np.floating")])

/-- the decorators of dataiter/vector.py: Vector.is_float, outermost first -/
def Vector_is_float_decorators : List String := []

/-- the signature of dataiter/vector.py: Vector.is_float: parameters in order, with the source text of their defaults -/
def Vector_is_float_signature : List String := ["self"]

/-- the calls of dataiter/vector.py: Vector.is_float in the order Python makes them along the source text -/
def Vector_is_float_call_order : List String := ["np.issubdtype"]

/-- dataiter/vector.py: Vector.is_integer (sha256 of the function source: 7e1adfa8761a23a4) -/
def Vector_is_integer (truth : Term → Bool) : Out :=
  Out.ret [] (Term.app "np.issubdtype" [(Term.app ".dtype" [(Term.sym "self")]), (Term.sym "np.integer")])

/-- the decorators of dataiter/vector.py: Vector.is_integer, outermost first -/
def Vector_is_integer_decorators : List String := []

/-- the signature of dataiter/vector.py: Vector.is_integer: parameters in order, with the source text of their defaults -/
def Vector_is_integer_signature : List String := ["self"]

/-- the calls of dataiter/vector.py: Vector.is_integer in the order Python makes them along the source text -/
def Vector_is_integer_call_order : List String := ["np.issubdtype"]

/-- dataiter/vector.py: Vector.is_number (sha256 of the function source: ed7468a70cc76f13) -/
def Vector_is_number (truth : Term → Bool) : Out :=
  Out.ret [] (Term.app "np.issubdtype" [(Term.app ".dtype" [(Term.sym "self")]), (Term.sym "np.number")])

/-- the decorators of dataiter/vector.py: Vector.is_number, outermost first -/
def Vector_is_number_decorators : List String := []

/-- the signature of dataiter/vector.py: Vector.is_number: parameters in order, with the source text of their defaults -/
def Vector_is_number_signature : List String := ["self"]

/-- the calls of dataiter/vector.py: Vector.is_number in the order Python makes them along the source text -/
def Vector_is_number_call_order : List String := ["np.issubdtype"]

/-- dataiter/vector.py: Vector.is_object (sha256 of the function source: e448b4574e6f9eb5) -/
def Vector_is_object (truth : Term → Bool) : Out :=
  Out.ret [] (Term.app "np.issubdtype" [(Term.app ".dtype" [(Term.sym "self")]), (Term.sym "np.object_")])

/-- the decorators of dataiter/vector.py: Vector.is_object, outermost first -/
def Vector_is_object_decorators : List String := []

/-- the signature of dataiter/vector.py: Vector.is_object: parameters in order, with the source text of their defaults -/
def Vector_is_object_signature : List String := ["self"]

/-- the calls of dataiter/vector.py: Vector.is_object in the order Python makes them along the source text -/
def Vector_is_object_call_order : List String := ["np.issubdtype"]

/-- dataiter/vector.py: Vector.is_string (sha256 of the function source: 6bfc56344b05b05c) -/
def Vector_is_string (truth : Term → Bool) : Out :=
  Out.ret [] (Term.app "isinstance" [(Term.app ".dtype" [(Term.sym "self")]), (Term.sym "StringDType")])

/-- the decorators of dataiter/vector.py: Vector.is_string, outermost first -/
def Vector_is_string_decorators : List String := []

/-- the signature of dataiter/vector.py: Vector.is_string: parameters in order, with the source text of their defaults -/
def Vector_is_string_signature : List String := ["self"]

/-- the calls of dataiter/vector.py: Vector.is_string in the order Python makes them along the source text -/
def Vector_is_string_call_order : List String := ["isinstance"]

/-- dataiter/vector.py: Vector._is_string_fixed (sha256 of the function source: 6c5c134c0ef4aef4) -/
def Vector_is_string_fixed (truth : Term → Bool) : Out :=
  Out.ret [] (Term.app "np.issubdtype" [(Term.app ".dtype" [(Term.sym "self")]), (Term.sym "np.str_")])

/-- the decorators of dataiter/vector.py: Vector._is_string_fixed, outermost first -/
def Vector_is_string_fixed_decorators : List String := []

/-- the signature of dataiter/vector.py: Vector._is_string_fixed: parameters in order, with the source text of their defaults -/
def Vector_is_string_fixed_signature : List String := ["self"]

/-- the calls of dataiter/vector.py: Vector._is_string_fixed in the order Python makes them along the source text -/
def Vector_is_string_fixed_call_order : List String := ["np.issubdtype"]

/-- dataiter/vector.py: Vector.is_timedelta (sha256 of the function source: c120a4fcbf4ae929) -/
def Vector_is_timedelta (truth : Term → Bool) : Out :=
  Out.ret [] (Term.app "np.issubdtype" [(Term.app ".dtype" [(Term.sym "self")]), (Term.sym "np.timedelta64")])

/-- the decorators of dataiter/vector.py: Vector.is_timedelta, outermost first -/
def Vector_is_timedelta_decorators : List String := []

/-- the signature of dataiter/vector.py: Vector.is_timedelta: parameters in order, with the source text of their defaults -/
def Vector_is_timedelta_signature : List String := ["self"]

/-- the calls of dataiter/vector.py: Vector.is_timedelta in the order Python makes them along the source text -/
def Vector_is_timedelta_call_order : List String := ["np.issubdtype"]

/-- dataiter/vector.py: Vector.as_boolean (sha256 of the function source: 12e9841c24477ac5) -/
def Vector_as_boolean (truth : Term → Bool) : Out :=
  Out.ret [] (Term.app ".astype" [(Term.sym "self"), (Term.sym "bool")])

/-- the decorators of dataiter/vector.py: Vector.as_boolean, outermost first -/
def Vector_as_boolean_decorators : List String := []

/-- the signature of dataiter/vector.py: Vector.as_boolean: parameters in order, with the source text of their defaults -/
def Vector_as_boolean_signature : List String := ["self"]

/-- the calls of dataiter/vector.py: Vector.as_boolean in the order Python makes them along the source text -/
def Vector_as_boolean_call_order : List String := ["self.astype"]

/-- dataiter/vector.py: Vector.as_bytes (sha256 of the function source: e3bb50ad90343848) -/
def Vector_as_bytes (truth : Term → Bool) : Out :=
  if truth (Term.app ".is_string" [(Term.sym "self")]) then
    Out.ret [] (Term.app ".encode" [(Term.app ".str" [(Term.sym "self")]), (Term.sym "'utf-8'")])
  else
    Out.ret [] (Term.app ".astype" [(Term.sym "self"), (Term.sym "bytes")])

/-- the decorators of dataiter/vector.py: Vector.as_bytes, outermost first -/
def Vector_as_bytes_decorators : List String := []

/-- the signature of dataiter/vector.py: Vector.as_bytes: parameters in order, with the source text of their defaults -/
def Vector_as_bytes_signature : List String := ["self"]

/-- the calls of dataiter/vector.py: Vector.as_bytes in the order Python makes them along the source text -/
def Vector_as_bytes_call_order : List String := ["self.is_string", "self.str.encode", "self.astype"]

/-- dataiter/vector.py: Vector.as_date (sha256 of the function source: 3d10b3d8069ec678) -/
def Vector_as_date (truth : Term → Bool) : Out :=
  Out.ret [] (Term.app ".astype" [(Term.sym "self"), (Term.app "np.dtype" [(Term.sym "'datetime64[D]'")])])

/-- the decorators of dataiter/vector.py: Vector.as_date, outermost first -/
def Vector_as_date_decorators : List String := []

/-- the signature of dataiter/vector.py: Vector.as_date: parameters in order, with the source text of their defaults -/
def Vector_as_date_signature : List String := ["self"]

/-- the calls of dataiter/vector.py: Vector.as_date in the order Python makes them along the source text -/
def Vector_as_date_call_order : List String := ["np.dtype", "self.astype"]

/-- dataiter/vector.py: Vector.as_datetime (sha256 of the function source: d33d8b70df15e9bd) -/
def Vector_as_datetime (truth : Term → Bool) : Out :=
  Out.ret [] (Term.app ".astype" [(Term.sym "self"), (Term.app "np.dtype" [(Term.app "fstring" [(Term.sym "'datetime64['"), (Term.app "format" [(Term.sym "precision"), (Term.sym ""), (Term.int (-1 : Int))]), (Term.sym "']'")])])])

/-- the decorators of dataiter/vector.py: Vector.as_datetime, outermost first -/
def Vector_as_datetime_decorators : List String := []

/-- the signature of dataiter/vector.py: Vector.as_datetime: parameters in order, with the source text of their defaults -/
def Vector_as_datetime_signature : List String := ["self", "precision='us'"]

/-- the calls of dataiter/vector.py: Vector.as_datetime in the order Python makes them along the source text -/
def Vector_as_datetime_call_order : List String := ["np.dtype", "self.astype"]

/-- dataiter/vector.py: Vector.as_float (sha256 of the function source: 746fc7b451fde837) -/
def Vector_as_float (truth : Term → Bool) : Out :=
  Out.ret [] (Term.app ".astype" [(Term.sym "self"), (Term.sym "float")])

/-- the decorators of dataiter/vector.py: Vector.as_float, outermost first -/
def Vector_as_float_decorators : List String := []

/-- the signature of dataiter/vector.py: Vector.as_float: parameters in order, with the source text of their defaults -/
def Vector_as_float_signature : List String := ["self"]

/-- the calls of dataiter/vector.py: Vector.as_float in the order Python makes them along the source text -/
def Vector_as_float_call_order : List String := ["self.astype"]

/-- dataiter/vector.py: Vector.as_integer (sha256 of the function source: 0802223c22d0251a) -/
def Vector_as_integer (truth : Term → Bool) : Out :=
  Out.ret [] (Term.app ".astype" [(Term.sym "self"), (Term.sym "int")])

/-- the decorators of dataiter/vector.py: Vector.as_integer, outermost first -/
def Vector_as_integer_decorators : List String := []

/-- the signature of dataiter/vector.py: Vector.as_integer: parameters in order, with the source text of their defaults -/
def Vector_as_integer_signature : List String := ["self"]

/-- the calls of dataiter/vector.py: Vector.as_integer in the order Python makes them along the source text -/
def Vector_as_integer_call_order : List String := ["self.astype"]

/-- dataiter/vector.py: Vector.as_object (sha256 of the function source: c3af1032970c66a5) -/
def Vector_as_object (truth : Term → Bool) : Out :=
  Out.ret [] (Term.app ".__class__" [(Term.sym "self"), (Term.app ".tolist" [(Term.sym "self")]), (Term.sym "object")])

/-- the decorators of dataiter/vector.py: Vector.as_object, outermost first -/
def Vector_as_object_decorators : List String := []

/-- the signature of dataiter/vector.py: Vector.as_object: parameters in order, with the source text of their defaults -/
def Vector_as_object_signature : List String := ["self"]

/-- the calls of dataiter/vector.py: Vector.as_object in the order Python makes them along the source text -/
def Vector_as_object_call_order : List String := ["self.tolist", "self.__class__"]

/-- dataiter/vector.py: Vector.as_string (sha256 of the function source: 292d78dca4242660) -/
def Vector_as_string (truth : Term → Bool) : Out :=
  Out.ret [] (Term.app ".astype" [(Term.sym "self"), (Term.sym "dtypes.string")])

/-- the decorators of dataiter/vector.py: Vector.as_string, outermost first -/
def Vector_as_string_decorators : List String := []

/-- the signature of dataiter/vector.py: Vector.as_string: parameters in order, with the source text of their defaults -/
def Vector_as_string_signature : List String := ["self"]

/-- the calls of dataiter/vector.py: Vector.as_string in the order Python makes them along the source text -/
def Vector_as_string_call_order : List String := ["self.astype"]

/-- dataiter/vector.py: Vector._map_input_dtype (sha256 of the function source: 85c0b2e1ba06d175) -/
def Vector_map_input_dtype (truth : Term → Bool) : Out :=
  if truth (Term.app "Is" [(Term.sym "dtype"), (Term.sym "str")]) then
    Out.ret [] (Term.sym "dtypes.string")
  else
    Out.ret [] (Term.sym "dtype")

/-- the decorators of dataiter/vector.py: Vector._map_input_dtype, outermost first -/
def Vector_map_input_dtype_decorators : List String := ["classmethod"]

/-- the signature of dataiter/vector.py: Vector._map_input_dtype: parameters in order, with the source text of their defaults -/
def Vector_map_input_dtype_signature : List String := ["cls", "dtype"]

/-- the calls of dataiter/vector.py: Vector._map_input_dtype in the order Python makes them along the source text -/
def Vector_map_input_dtype_call_order : List String := []

end DI.Gen

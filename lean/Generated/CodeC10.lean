/-
  Generated/CodeC10.lean — REGENERATED on every run by harness/py2lean.py from the current source of
  /repo (symbolic execution of small control-flow functions; see Model/PyCore.lean).  Do not edit.
-/
import Model.PyCore

set_option linter.unusedVariables false

namespace DI.Gen

open DI.Py

/-- dataiter/vector.py: Vector.na_value (sha256 of the function source: ff928a93731df29a) -/
def Vector_na_value (truth : Term → Bool) : Out :=
  if truth (Term.app ".is_datetime" [(Term.sym "self")]) then
    Out.ret [] (Term.app "np.datetime64" [(Term.sym "'NaT'")])
  else
    if truth (Term.app ".is_timedelta" [(Term.sym "self")]) then
      Out.ret [] (Term.app "np.timedelta64" [(Term.sym "'NaT'")])
    else
      if truth (Term.app ".is_float" [(Term.sym "self")]) then
        Out.ret [] (Term.sym "np.nan")
      else
        if truth (Term.app ".is_integer" [(Term.sym "self")]) then
          Out.ret [] (Term.sym "np.nan")
        else
          if (truth (Term.app ".is_string" [(Term.sym "self")]) || truth (Term.app "._is_string_fixed" [(Term.sym "self")])) then
            Out.ret [] (Term.sym "dtypes.string.na_object")
          else
            Out.ret [] (Term.sym "None")

/-- the decorators of dataiter/vector.py: Vector.na_value, outermost first -/
def Vector_na_value_decorators : List String := ["property"]

/-- the signature of dataiter/vector.py: Vector.na_value: parameters in order, with the source text of their defaults -/
def Vector_na_value_signature : List String := ["self"]

/-- the calls of dataiter/vector.py: Vector.na_value in the order Python makes them along the source text -/
def Vector_na_value_call_order : List String := ["self.is_datetime", "np.datetime64", "self.is_timedelta", "np.timedelta64", "self.is_float", "self.is_integer", "self.is_string", "self._is_string_fixed"]

/-- dataiter/vector.py: Vector.na_dtype (sha256 of the function source: dd4bad661e423266) -/
def Vector_na_dtype (truth : Term → Bool) : Out :=
  if truth (Term.app ".is_datetime" [(Term.sym "self")]) then
    Out.ret [] (Term.app ".dtype" [(Term.sym "self")])
  else
    if truth (Term.app ".is_timedelta" [(Term.sym "self")]) then
      Out.ret [] (Term.app ".dtype" [(Term.sym "self")])
    else
      if truth (Term.app ".is_float" [(Term.sym "self")]) then
        Out.ret [] (Term.app ".dtype" [(Term.sym "self")])
      else
        if truth (Term.app ".is_integer" [(Term.sym "self")]) then
          Out.ret [] (Term.sym "float")
        else
          if (truth (Term.app ".is_string" [(Term.sym "self")]) || truth (Term.app "._is_string_fixed" [(Term.sym "self")])) then
            Out.ret [] (Term.app ".dtype" [(Term.sym "self")])
          else
            Out.ret [] (Term.sym "object")

/-- the decorators of dataiter/vector.py: Vector.na_dtype, outermost first -/
def Vector_na_dtype_decorators : List String := ["property"]

/-- the signature of dataiter/vector.py: Vector.na_dtype: parameters in order, with the source text of their defaults -/
def Vector_na_dtype_signature : List String := ["self"]

/-- the calls of dataiter/vector.py: Vector.na_dtype in the order Python makes them along the source text -/
def Vector_na_dtype_call_order : List String := ["self.is_datetime", "self.is_timedelta", "self.is_float", "self.is_integer", "self.is_string", "self._is_string_fixed"]

/-- dataiter/vector.py: Vector.is_na (sha256 of the function source: 489b24035d441d9d) -/
def Vector_is_na (truth : Term → Bool) : Out :=
  if truth (Term.app ".is_datetime" [(Term.sym "self")]) then
    Out.ret [] (Term.app "np.isnat" [(Term.sym "self")])
  else
    if truth (Term.app ".is_timedelta" [(Term.sym "self")]) then
      Out.ret [] (Term.app "np.isnat" [(Term.sym "self")])
    else
      if truth (Term.app ".is_float" [(Term.sym "self")]) then
        Out.ret [] (Term.app "np.isnan" [(Term.sym "self")])
      else
        if (truth (Term.app ".is_string" [(Term.sym "self")]) || truth (Term.app "._is_string_fixed" [(Term.sym "self")])) then
          Out.ret [] (Term.app "Eq" [(Term.sym "self"), (Term.sym "dtypes.string.na_object")])
        else
          Out.ret [] (Term.app ".fast" [(Term.sym "self"), (Term.app "ListComp" [(Term.app "Is" [(Term.sym "x"), (Term.sym "None")]), (Term.app "in" [(Term.sym "x"), (Term.sym "self"), (Term.app "if" [])])]), (Term.sym "bool")])

/-- the decorators of dataiter/vector.py: Vector.is_na, outermost first -/
def Vector_is_na_decorators : List String := []

/-- the signature of dataiter/vector.py: Vector.is_na: parameters in order, with the source text of their defaults -/
def Vector_is_na_signature : List String := ["self"]

/-- the calls of dataiter/vector.py: Vector.is_na in the order Python makes them along the source text -/
def Vector_is_na_call_order : List String := ["self.is_datetime", "np.isnat", "self.is_timedelta", "np.isnat", "self.is_float", "np.isnan", "self.is_string", "self._is_string_fixed", "self.fast"]

/-- dataiter/vector.py: Vector.drop_na (sha256 of the function source: 94a4d2b6c906399e) -/
def Vector_drop_na (truth : Term → Bool) : Out :=
  Out.ret [] (Term.app ".copy" [(Term.app "getitem" [(Term.sym "self"), (Term.app "~" [(Term.app ".is_na" [(Term.sym "self")])])])])

/-- the decorators of dataiter/vector.py: Vector.drop_na, outermost first -/
def Vector_drop_na_decorators : List String := []

/-- the signature of dataiter/vector.py: Vector.drop_na: parameters in order, with the source text of their defaults -/
def Vector_drop_na_signature : List String := ["self"]

/-- the calls of dataiter/vector.py: Vector.drop_na in the order Python makes them along the source text -/
def Vector_drop_na_call_order : List String := ["self.is_na", "self[~self.is_na()].copy"]

/-- dataiter/vector.py: Vector.tolist (sha256 of the function source: 6c6b05c5c3a558ee) -/
def Vector_tolist (truth : Term → Bool) : Out :=
  Out.ret [] (Term.app ".tolist" [(Term.app "np.where" [(Term.app ".is_na" [(Term.sym "self")]), (Term.sym "None"), (Term.sym "self")])])

/-- the decorators of dataiter/vector.py: Vector.tolist, outermost first -/
def Vector_tolist_decorators : List String := []

/-- the signature of dataiter/vector.py: Vector.tolist: parameters in order, with the source text of their defaults -/
def Vector_tolist_signature : List String := ["self"]

/-- the calls of dataiter/vector.py: Vector.tolist in the order Python makes them along the source text -/
def Vector_tolist_call_order : List String := ["self.is_na", "np.where", "np.where(self.is_na(), None, self).tolist"]

/-- dataiter/vector.py: Vector.equal (sha256 of the function source: e933f960452bc821) -/
def Vector_equal (truth : Term → Bool) (self_length : Int) (other_length : Int) : Out :=
  if (!(truth (Term.app "isinstance" [(Term.sym "other"), (Term.sym "Vector")]) && decide (self_length = other_length) && truth (Term.app "Eq" [(Term.app "str" [(Term.app ".na_value" [(Term.sym "self")])]), (Term.app "str" [(Term.app ".na_value" [(Term.sym "other")])])]))) then
    Out.ret [] (Term.sym "False")
  else
    let ii' : Term := (Term.app ".is_na" [(Term.sym "self")]);
    let jj' : Term := (Term.app ".is_na" [(Term.sym "other")]);
    Out.ret [] (Term.app "And" [(Term.app "np.all" [(Term.app "Eq" [ii', jj'])]), (Term.app "np.all" [(Term.app "Eq" [(Term.app "getitem" [(Term.sym "self"), (Term.app "~" [ii'])]), (Term.app "getitem" [(Term.sym "other"), (Term.app "~" [jj'])])])])])

/-- the decorators of dataiter/vector.py: Vector.equal, outermost first -/
def Vector_equal_decorators : List String := []

/-- the signature of dataiter/vector.py: Vector.equal: parameters in order, with the source text of their defaults -/
def Vector_equal_signature : List String := ["self", "other"]

/-- the calls of dataiter/vector.py: Vector.equal in the order Python makes them along the source text -/
def Vector_equal_call_order : List String := ["isinstance", "str", "str", "self.is_na", "other.is_na", "np.all", "np.all"]

end DI.Gen

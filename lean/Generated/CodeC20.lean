/-
  Generated/CodeC20.lean — REGENERATED on every run by harness/py2lean.py from the current source of
  /repo (symbolic execution of small control-flow functions; see Model/PyCore.lean).  Do not edit.
-/
import Model.PyCore

set_option linter.unusedVariables false

namespace DI.Gen

open DI.Py

/-- dataiter/util.py: ulen (sha256 of the function source: 1d841d9be61734a7) -/
def util_ulen (truth : Term → Bool) (wcwidth_wcswidth_string : Int) : Out :=
  let length' : Int := wcwidth_wcswidth_string;
  Out.ret [] (Term.int (if decide (length' ≥ (0 : Int)) then length' else (0 : Int)))

/-- the decorators of dataiter/util.py: ulen, outermost first -/
def util_ulen_decorators : List String := []

/-- the signature of dataiter/util.py: ulen: parameters in order, with the source text of their defaults -/
def util_ulen_signature : List String := ["string"]

end DI.Gen

/-
  Generated/CodeC20.lean — REGENERATED on every run by harness/py2lean.py from the current source of
  /repo (symbolic execution of small control-flow functions; see Model/PyCore.lean).  Do not edit.
-/
import Model.PyCore

set_option linter.unusedVariables false

namespace DI.Gen

open DI.Py

/-- dataiter/util.py: ulen (sha256 of the function source: 1d841d9be61734a7) -/
def util_ulen (truth : Term → Bool) (wcwidth_wcswidth_string : Int) : Out :=
  let length' : Int := wcwidth_wcswidth_string;
  Out.ret [] (Term.int (if decide (length' ≥ (0 : Int)) then length' else (0 : Int)))

/-- the decorators of dataiter/util.py: ulen, outermost first -/
def util_ulen_decorators : List String := []

/-- the signature of dataiter/util.py: ulen: parameters in order, with the source text of their defaults -/
def util_ulen_signature : List String := ["string"]

/-- the calls of dataiter/util.py: ulen in the order Python makes them along the source text -/
def util_ulen_call_order : List String := ["wcwidth.wcswidth"]

/-- dataiter/util.py: upad (sha256 of the function source: 1cad23c314dd92fd) -/
def util_upad (truth : Term → Bool) : Out :=
  let width' : Term := (Term.app "max" [(Term.app "GeneratorExp" [(Term.app "ulen" [(Term.sym "x")]), (Term.app "in" [(Term.sym "x"), (Term.sym "strings"), (Term.app "if" [])])])]);
  let eff0 : Term := (Term.app "for" [(Term.sym "value"), (Term.sym "strings"), (Term.app "block" [(Term.app "assign" [(Term.sym "padding"), (Term.app "Mult" [(Term.sym "' '"), (Term.app "Sub" [width', (Term.app "ulen" [(Term.sym "value")])])])]), (Term.app "yield" [(Term.app "ifexp" [(Term.app "Eq" [(Term.sym "align"), (Term.sym "'right'")]), (Term.app "Add" [(Term.sym "padding"), (Term.sym "value")]), (Term.app "Add" [(Term.sym "value"), (Term.sym "padding")])])])])]);
  let padding' : Term := (Term.app "value-after-loop" [(Term.sym "padding"), eff0]);
  Out.fall [eff0]

/-- the decorators of dataiter/util.py: upad, outermost first -/
def util_upad_decorators : List String := ["deco.listify"]

/-- the signature of dataiter/util.py: upad: parameters in order, with the source text of their defaults -/
def util_upad_signature : List String := ["strings", "*", "align='right'"]

/-- the calls of dataiter/util.py: upad in the order Python makes them along the source text -/
def util_upad_call_order : List String := ["ulen", "max", "ulen"]

/-- dataiter/util.py: utruncate (sha256 of the function source: a1a737991414518e) -/
def util_utruncate (truth : Term → Bool) : Out :=
  let eff0 : Term := (Term.app "for" [(Term.sym "i"), (Term.app "range" [(Term.int (1 : Int)), (Term.app "len" [(Term.sym "string")])]), (Term.app "block" [(Term.app "if" [(Term.app "Gt" [(Term.app "ulen" [(Term.app "getitem" [(Term.sym "string"), (Term.app "slice" [(Term.sym "None"), (Term.sym "i")])])]), (Term.sym "width")]), (Term.app "block" [(Term.app "return" [(Term.app "getitem" [(Term.sym "string"), (Term.app "slice" [(Term.sym "None"), (Term.app "Sub" [(Term.sym "i"), (Term.int (1 : Int))])])])])]), (Term.app "block" [])])])]);
  Out.ret [eff0] (Term.sym "string")

/-- the decorators of dataiter/util.py: utruncate, outermost first -/
def util_utruncate_decorators : List String := []

/-- the signature of dataiter/util.py: utruncate: parameters in order, with the source text of their defaults -/
def util_utruncate_signature : List String := ["string", "width"]

/-- the calls of dataiter/util.py: utruncate in the order Python makes them along the source text -/
def util_utruncate_call_order : List String := ["len", "range", "ulen"]

/-- dataiter/util.py: format_floats (sha256 of the function source: 541a2dd8cc450cd9) -/
def util_format_floats (truth : Term → Bool) (ksep_is_None : Bool) : Out :=
  let precision' : Term := (Term.sym "dataiter.PRINT_FLOAT_PRECISION");
  if truth (Term.app "any" [(Term.app "GeneratorExp" [(Term.app "Or" [(Term.app "Lt/Lt" [(Term.int (0 : Int)), (Term.app "abs" [(Term.sym "x")]), (Term.app "Div" [(Term.int (1 : Int)), (Term.app "Pow" [(Term.int (10 : Int)), precision'])])]), (Term.app "Gt" [(Term.app "abs" [(Term.sym "x")]), (Term.app "Sub" [(Term.app "Pow" [(Term.int (10 : Int)), (Term.int (16 : Int))]), (Term.int (1 : Int))])])]), (Term.app "in" [(Term.sym "x"), (Term.sym "seq"), (Term.app "if" [])])])]) then
    let f' : Term := (Term.sym "np.format_float_scientific");
    Out.ret [] (Term.app "ListComp" [(Term.app "call" [f', (Term.sym "x"), (Term.app "=precision" [precision']), (Term.app "=trim" [(Term.sym "'-'")])]), (Term.app "in" [(Term.sym "x"), (Term.sym "seq"), (Term.app "if" [])])])
  else
    if ksep_is_None then
      let ksep' : Term := (Term.sym "dataiter.PRINT_THOUSAND_SEPARATOR");
      let digits' : Term := (Term.app "ListComp" [(Term.app "count_digits" [(Term.sym "x")]), (Term.app "in" [(Term.sym "x"), (Term.sym "seq"), (Term.app "if" [])])]);
      let n' : Term := (Term.app "max" [(Term.app "GeneratorExp" [(Term.app "getitem" [(Term.sym "x"), (Term.int (0 : Int))]), (Term.app "in" [(Term.sym "x"), digits', (Term.app "if" [])])])]);
      let m' : Term := (Term.app "max" [(Term.app "GeneratorExp" [(Term.app "getitem" [(Term.sym "x"), (Term.int (1 : Int))]), (Term.app "in" [(Term.sym "x"), digits', (Term.app "if" [])])])]);
      let precision' : Term := (Term.app "min" [m', (Term.app "max" [(Term.int (0 : Int)), (Term.app "Sub" [precision', n'])])]);
      Out.ret [] (Term.app "ListComp" [(Term.app ".replace" [(Term.app ".format" [(Term.app "fstring" [(Term.sym "'{:,.'"), (Term.app "format" [precision', (Term.sym ""), (Term.int (-1 : Int))]), (Term.sym "'f}'")]), (Term.sym "x")]), (Term.sym "','"), ksep']), (Term.app "in" [(Term.sym "x"), (Term.sym "seq"), (Term.app "if" [])])])
    else
      let digits' : Term := (Term.app "ListComp" [(Term.app "count_digits" [(Term.sym "x")]), (Term.app "in" [(Term.sym "x"), (Term.sym "seq"), (Term.app "if" [])])]);
      let n' : Term := (Term.app "max" [(Term.app "GeneratorExp" [(Term.app "getitem" [(Term.sym "x"), (Term.int (0 : Int))]), (Term.app "in" [(Term.sym "x"), digits', (Term.app "if" [])])])]);
      let m' : Term := (Term.app "max" [(Term.app "GeneratorExp" [(Term.app "getitem" [(Term.sym "x"), (Term.int (1 : Int))]), (Term.app "in" [(Term.sym "x"), digits', (Term.app "if" [])])])]);
      let precision' : Term := (Term.app "min" [m', (Term.app "max" [(Term.int (0 : Int)), (Term.app "Sub" [precision', n'])])]);
      Out.ret [] (Term.app "ListComp" [(Term.app ".replace" [(Term.app ".format" [(Term.app "fstring" [(Term.sym "'{:,.'"), (Term.app "format" [precision', (Term.sym ""), (Term.int (-1 : Int))]), (Term.sym "'f}'")]), (Term.sym "x")]), (Term.sym "','"), (Term.sym "ksep")]), (Term.app "in" [(Term.sym "x"), (Term.sym "seq"), (Term.app "if" [])])])

/-- the decorators of dataiter/util.py: format_floats, outermost first -/
def util_format_floats_decorators : List String := []

/-- the signature of dataiter/util.py: format_floats: parameters in order, with the source text of their defaults -/
def util_format_floats_signature : List String := ["seq", "ksep=None"]

/-- the calls of dataiter/util.py: format_floats in the order Python makes them along the source text -/
def util_format_floats_call_order : List String := ["abs", "abs", "any", "f", "count_digits", "max", "max", "max", "min", "f'{{:,.{precision}f}}'.format", "f'{{:,.{precision}f}}'.format(x).replace"]

/-- dataiter/vector.py: Vector.to_strings (sha256 of the function source: 91940b4f3d66bd0d) -/
def Vector_to_strings (truth : Term → Bool) (ksep_is_None : Bool) : Out :=
  if truth (Term.app "Eq" [(Term.app ".length" [(Term.sym "self")]), (Term.int (0 : Int))]) then
    Out.ret [] (Term.app ".fast" [(Term.app ".__class__" [(Term.sym "self")]), (Term.app "list" []), (Term.sym "str")])
  else
    let identity' : Term := (Term.app "lambda" [(Term.app "params" [(Term.sym "x")]), (Term.sym "x")]);
    if ksep_is_None then
      let ksep' : Term := (Term.sym "dataiter.PRINT_THOUSAND_SEPARATOR");
      let quote' : Term := (if truth (Term.sym "quote") then (Term.sym "util.quote") else identity');
      let pad' : Term := (if truth (Term.sym "pad") then (Term.sym "util.upad") else identity');
      if truth (Term.app ".is_float" [(Term.sym "self")]) then
        let strings' : Term := (Term.app "util.format_floats" [(Term.sym "self"), (Term.app "=ksep" [ksep'])]);
        Out.ret [] (Term.app ".fast" [(Term.app ".__class__" [(Term.sym "self")]), (Term.app "call" [pad', strings']), (Term.sym "str")])
      else
        if (truth (Term.app ".is_integer" [(Term.sym "self")]) && (!truth (Term.app ".is_timedelta" [(Term.sym "self")]))) then
          let strings' : Term := (Term.app "ListComp" [(Term.app ".replace" [(Term.app ".format" [(Term.sym "'{:,d}'"), (Term.sym "x")]), (Term.sym "','"), ksep']), (Term.app "in" [(Term.sym "x"), (Term.sym "self"), (Term.app "if" [])])]);
          Out.ret [] (Term.app ".fast" [(Term.app ".__class__" [(Term.sym "self")]), (Term.app "call" [pad', strings']), (Term.sym "str")])
        else
          if truth (Term.app ".is_object" [(Term.sym "self")]) then
            let strings' : Term := (Term.app "ListComp" [(Term.app "str" [(Term.sym "x")]), (Term.app "in" [(Term.sym "x"), (Term.sym "self"), (Term.app "if" [])])]);
            let eff0 : Term := (Term.app "for" [(Term.sym "i"), (Term.app "range" [(Term.app "len" [strings'])]), (Term.app "block" [(Term.app "assign" [(Term.sym "lines"), (Term.app ".splitlines" [(Term.app "getitem" [strings', (Term.sym "i")])])]), (Term.app "if" [(Term.app "Or" [(Term.app "Gt" [(Term.app "util.ulen" [(Term.app "getitem" [strings', (Term.sym "i")])]), (Term.sym "truncate_width")]), (Term.app "And" [(Term.sym "lines"), (Term.app "NotEq" [(Term.app "getitem" [(Term.sym "lines"), (Term.int (0 : Int))]), (Term.app "getitem" [strings', (Term.sym "i")])]), (Term.app "Lt" [(Term.sym "truncate_width"), (Term.sym "inf")])])]), (Term.app "block" [(Term.app "store" [(Term.app "getitem" [strings', (Term.sym "i")]), (Term.app "Add" [(Term.app "util.utruncate" [(Term.app "getitem" [(Term.sym "lines"), (Term.int (0 : Int))]), (Term.app "Sub" [(Term.sym "truncate_width"), (Term.int (1 : Int))])]), (Term.sym "'…'")])])]), (Term.app "block" [])])])]);
            let lines' : Term := (Term.app "value-after-loop" [(Term.sym "lines"), eff0]);
            Out.ret [eff0] (Term.app ".fast" [(Term.app ".__class__" [(Term.sym "self")]), (Term.app "call" [pad', strings']), (Term.sym "str")])
          else
            if truth (Term.app ".is_string" [(Term.sym "self")]) then
              let strings' : Term := (Term.app "ListComp" [(Term.app "call" [quote', (Term.sym "x")]), (Term.app "in" [(Term.sym "x"), (Term.sym "self"), (Term.app "if" [])])]);
              let eff0 : Term := (Term.app "for" [(Term.sym "i"), (Term.app "range" [(Term.app "len" [strings'])]), (Term.app "block" [(Term.app "assign" [(Term.sym "lines"), (Term.app ".splitlines" [(Term.app "getitem" [strings', (Term.sym "i")])])]), (Term.app "if" [(Term.app "Or" [(Term.app "Gt" [(Term.app "util.ulen" [(Term.app "getitem" [strings', (Term.sym "i")])]), (Term.sym "truncate_width")]), (Term.app "And" [(Term.sym "lines"), (Term.app "NotEq" [(Term.app "getitem" [(Term.sym "lines"), (Term.int (0 : Int))]), (Term.app "getitem" [strings', (Term.sym "i")])]), (Term.app "Lt" [(Term.sym "truncate_width"), (Term.sym "inf")])])]), (Term.app "block" [(Term.app "store" [(Term.app "getitem" [strings', (Term.sym "i")]), (Term.app "Add" [(Term.app "util.utruncate" [(Term.app "getitem" [(Term.sym "lines"), (Term.int (0 : Int))]), (Term.app "Sub" [(Term.sym "truncate_width"), (Term.int (1 : Int))])]), (Term.sym "'…'")])])]), (Term.app "block" [])])])]);
              let lines' : Term := (Term.app "value-after-loop" [(Term.sym "lines"), eff0]);
              Out.ret [eff0] (Term.app ".fast" [(Term.app ".__class__" [(Term.sym "self")]), (Term.app "call" [pad', strings']), (Term.sym "str")])
            else
              let strings' : Term := (Term.app "ListComp" [(Term.app "str" [(Term.sym "x")]), (Term.app "in" [(Term.sym "x"), (Term.sym "self"), (Term.app "if" [])])]);
              Out.ret [] (Term.app ".fast" [(Term.app ".__class__" [(Term.sym "self")]), (Term.app "call" [pad', strings']), (Term.sym "str")])
    else
      let quote' : Term := (if truth (Term.sym "quote") then (Term.sym "util.quote") else identity');
      let pad' : Term := (if truth (Term.sym "pad") then (Term.sym "util.upad") else identity');
      if truth (Term.app ".is_float" [(Term.sym "self")]) then
        let strings' : Term := (Term.app "util.format_floats" [(Term.sym "self"), (Term.app "=ksep" [(Term.sym "ksep")])]);
        Out.ret [] (Term.app ".fast" [(Term.app ".__class__" [(Term.sym "self")]), (Term.app "call" [pad', strings']), (Term.sym "str")])
      else
        if (truth (Term.app ".is_integer" [(Term.sym "self")]) && (!truth (Term.app ".is_timedelta" [(Term.sym "self")]))) then
          let strings' : Term := (Term.app "ListComp" [(Term.app ".replace" [(Term.app ".format" [(Term.sym "'{:,d}'"), (Term.sym "x")]), (Term.sym "','"), (Term.sym "ksep")]), (Term.app "in" [(Term.sym "x"), (Term.sym "self"), (Term.app "if" [])])]);
          Out.ret [] (Term.app ".fast" [(Term.app ".__class__" [(Term.sym "self")]), (Term.app "call" [pad', strings']), (Term.sym "str")])
        else
          if truth (Term.app ".is_object" [(Term.sym "self")]) then
            let strings' : Term := (Term.app "ListComp" [(Term.app "str" [(Term.sym "x")]), (Term.app "in" [(Term.sym "x"), (Term.sym "self"), (Term.app "if" [])])]);
            let eff0 : Term := (Term.app "for" [(Term.sym "i"), (Term.app "range" [(Term.app "len" [strings'])]), (Term.app "block" [(Term.app "assign" [(Term.sym "lines"), (Term.app ".splitlines" [(Term.app "getitem" [strings', (Term.sym "i")])])]), (Term.app "if" [(Term.app "Or" [(Term.app "Gt" [(Term.app "util.ulen" [(Term.app "getitem" [strings', (Term.sym "i")])]), (Term.sym "truncate_width")]), (Term.app "And" [(Term.sym "lines"), (Term.app "NotEq" [(Term.app "getitem" [(Term.sym "lines"), (Term.int (0 : Int))]), (Term.app "getitem" [strings', (Term.sym "i")])]), (Term.app "Lt" [(Term.sym "truncate_width"), (Term.sym "inf")])])]), (Term.app "block" [(Term.app "store" [(Term.app "getitem" [strings', (Term.sym "i")]), (Term.app "Add" [(Term.app "util.utruncate" [(Term.app "getitem" [(Term.sym "lines"), (Term.int (0 : Int))]), (Term.app "Sub" [(Term.sym "truncate_width"), (Term.int (1 : Int))])]), (Term.sym "'…'")])])]), (Term.app "block" [])])])]);
            let lines' : Term := (Term.app "value-after-loop" [(Term.sym "lines"), eff0]);
            Out.ret [eff0] (Term.app ".fast" [(Term.app ".__class__" [(Term.sym "self")]), (Term.app "call" [pad', strings']), (Term.sym "str")])
          else
            if truth (Term.app ".is_string" [(Term.sym "self")]) then
              let strings' : Term := (Term.app "ListComp" [(Term.app "call" [quote', (Term.sym "x")]), (Term.app "in" [(Term.sym "x"), (Term.sym "self"), (Term.app "if" [])])]);
              let eff0 : Term := (Term.app "for" [(Term.sym "i"), (Term.app "range" [(Term.app "len" [strings'])]), (Term.app "block" [(Term.app "assign" [(Term.sym "lines"), (Term.app ".splitlines" [(Term.app "getitem" [strings', (Term.sym "i")])])]), (Term.app "if" [(Term.app "Or" [(Term.app "Gt" [(Term.app "util.ulen" [(Term.app "getitem" [strings', (Term.sym "i")])]), (Term.sym "truncate_width")]), (Term.app "And" [(Term.sym "lines"), (Term.app "NotEq" [(Term.app "getitem" [(Term.sym "lines"), (Term.int (0 : Int))]), (Term.app "getitem" [strings', (Term.sym "i")])]), (Term.app "Lt" [(Term.sym "truncate_width"), (Term.sym "inf")])])]), (Term.app "block" [(Term.app "store" [(Term.app "getitem" [strings', (Term.sym "i")]), (Term.app "Add" [(Term.app "util.utruncate" [(Term.app "getitem" [(Term.sym "lines"), (Term.int (0 : Int))]), (Term.app "Sub" [(Term.sym "truncate_width"), (Term.int (1 : Int))])]), (Term.sym "'…'")])])]), (Term.app "block" [])])])]);
              let lines' : Term := (Term.app "value-after-loop" [(Term.sym "lines"), eff0]);
              Out.ret [eff0] (Term.app ".fast" [(Term.app ".__class__" [(Term.sym "self")]), (Term.app "call" [pad', strings']), (Term.sym "str")])
            else
              let strings' : Term := (Term.app "ListComp" [(Term.app "str" [(Term.sym "x")]), (Term.app "in" [(Term.sym "x"), (Term.sym "self"), (Term.app "if" [])])]);
              Out.ret [] (Term.app ".fast" [(Term.app ".__class__" [(Term.sym "self")]), (Term.app "call" [pad', strings']), (Term.sym "str")])

/-- the decorators of dataiter/vector.py: Vector.to_strings, outermost first -/
def Vector_to_strings_decorators : List String := []

/-- the signature of dataiter/vector.py: Vector.to_strings: parameters in order, with the source text of their defaults -/
def Vector_to_strings_signature : List String := ["self", "*", "ksep=None", "quote=True", "pad=False", "truncate_width=inf"]

/-- the calls of dataiter/vector.py: Vector.to_strings in the order Python makes them along the source text -/
def Vector_to_strings_call_order : List String := ["self.__class__.fast", "self.is_float", "util.format_floats", "pad", "self.__class__.fast", "self.is_integer", "self.is_timedelta", "'{:,d}'.format", "'{:,d}'.format(x).replace", "pad", "self.__class__.fast", "self.is_object", "str", "len", "range", "strings[i].splitlines", "util.ulen", "util.utruncate", "pad", "self.__class__.fast", "self.is_string", "quote", "len", "range", "strings[i].splitlines", "util.ulen", "util.utruncate", "pad", "self.__class__.fast", "str", "pad", "self.__class__.fast"]

/-- dataiter/vector.py: Vector.to_string (sha256 of the function source: 86628f41cc439ceb) -/
def Vector_to_string (truth : Term → Bool) (max_elements_is_None : Bool) : Out :=
  let print_width' : Term := (Term.app "util.get_print_width" []);
  let add_string_element' : Term := (Term.app "local-def" [(Term.app "def" [(Term.sym "add_string_element"), (Term.app "params" [(Term.sym "string"), (Term.sym "rows")]), (Term.app "block" [(Term.app "if" [(Term.app "LtE" [(Term.app "len" [(Term.app "getitem" [(Term.sym "rows"), (Term.int (-(1 : Int)))])]), (Term.int (1 : Int))]), (Term.app "block" [(Term.app "return" [(Term.app ".append" [(Term.app "getitem" [(Term.sym "rows"), (Term.int (-(1 : Int)))]), (Term.sym "string")])])]), (Term.app "block" [])]), (Term.app "assign" [(Term.sym "row"), (Term.app ".join" [(Term.sym "' '"), (Term.app "Add" [(Term.app "getitem" [(Term.sym "rows"), (Term.int (-(1 : Int)))]), (Term.app "list" [(Term.sym "string")])])])]), (Term.app "if" [(Term.app "Lt" [(Term.app "util.ulen" [(Term.sym "row")]), print_width']), (Term.app "block" [(Term.app "return" [(Term.app ".append" [(Term.app "getitem" [(Term.sym "rows"), (Term.int (-(1 : Int)))]), (Term.sym "string")])])]), (Term.app "block" [])]), (Term.app "return" [(Term.app ".append" [(Term.sym "rows"), (Term.app "list" [(Term.sym "' '"), (Term.sym "string")])])])])])]);
  if max_elements_is_None then
    let max_elements' : Term := (Term.sym "dataiter.PRINT_MAX_ELEMENTS");
    let rows' : Term := (Term.app "list" [(Term.app "list" [(Term.sym "'['")])]);
    let n' : Term := (Term.app "min" [(Term.app ".length" [(Term.sym "self")]), max_elements']);
    let eff0 : Term := (Term.app "for" [(Term.sym "string"), (Term.app ".to_strings" [(Term.app "getitem" [(Term.sym "self"), (Term.app "slice" [(Term.sym "None"), n'])]), (Term.app "=pad" [(Term.sym "True")])]), (Term.app "block" [(Term.app "call" [add_string_element', (Term.sym "string"), rows'])])]);
    if truth (Term.app "Lt" [max_elements', (Term.app ".length" [(Term.sym "self")])]) then
      let eff1 : Term := (Term.app "call" [add_string_element', (Term.sym "'...'"), rows']);
      let eff2 : Term := (Term.app "call" [add_string_element', (Term.app "fstring" [(Term.sym "'] '"), (Term.app "format" [(Term.app ".dtype_label" [(Term.sym "self")]), (Term.sym ""), (Term.int (-1 : Int))])]), rows']);
      if truth (Term.app "Eq" [(Term.app "len" [rows']), (Term.int (1 : Int))]) then
        let eff3 : Term := (Term.app "store" [(Term.app "getitem" [rows', (Term.int (0 : Int))]), (Term.app "ListComp" [(Term.app ".strip" [(Term.sym "x")]), (Term.app "in" [(Term.sym "x"), (Term.app "getitem" [rows', (Term.int (0 : Int))]), (Term.app "if" [])])])]);
        Out.ret [eff0, eff1, eff2, eff3] (Term.app ".join" [(Term.sym "'\\n'"), (Term.app "GeneratorExp" [(Term.app ".join" [(Term.sym "' '"), (Term.sym "x")]), (Term.app "in" [(Term.sym "x"), rows', (Term.app "if" [])])])])
      else
        Out.ret [eff0, eff1, eff2] (Term.app ".join" [(Term.sym "'\\n'"), (Term.app "GeneratorExp" [(Term.app ".join" [(Term.sym "' '"), (Term.sym "x")]), (Term.app "in" [(Term.sym "x"), rows', (Term.app "if" [])])])])
    else
      let eff1 : Term := (Term.app "call" [add_string_element', (Term.app "fstring" [(Term.sym "'] '"), (Term.app "format" [(Term.app ".dtype_label" [(Term.sym "self")]), (Term.sym ""), (Term.int (-1 : Int))])]), rows']);
      if truth (Term.app "Eq" [(Term.app "len" [rows']), (Term.int (1 : Int))]) then
        let eff2 : Term := (Term.app "store" [(Term.app "getitem" [rows', (Term.int (0 : Int))]), (Term.app "ListComp" [(Term.app ".strip" [(Term.sym "x")]), (Term.app "in" [(Term.sym "x"), (Term.app "getitem" [rows', (Term.int (0 : Int))]), (Term.app "if" [])])])]);
        Out.ret [eff0, eff1, eff2] (Term.app ".join" [(Term.sym "'\\n'"), (Term.app "GeneratorExp" [(Term.app ".join" [(Term.sym "' '"), (Term.sym "x")]), (Term.app "in" [(Term.sym "x"), rows', (Term.app "if" [])])])])
      else
        Out.ret [eff0, eff1] (Term.app ".join" [(Term.sym "'\\n'"), (Term.app "GeneratorExp" [(Term.app ".join" [(Term.sym "' '"), (Term.sym "x")]), (Term.app "in" [(Term.sym "x"), rows', (Term.app "if" [])])])])
  else
    let rows' : Term := (Term.app "list" [(Term.app "list" [(Term.sym "'['")])]);
    let n' : Term := (Term.app "min" [(Term.app ".length" [(Term.sym "self")]), (Term.sym "max_elements")]);
    let eff0 : Term := (Term.app "for" [(Term.sym "string"), (Term.app ".to_strings" [(Term.app "getitem" [(Term.sym "self"), (Term.app "slice" [(Term.sym "None"), n'])]), (Term.app "=pad" [(Term.sym "True")])]), (Term.app "block" [(Term.app "call" [add_string_element', (Term.sym "string"), rows'])])]);
    if truth (Term.app "Lt" [(Term.sym "max_elements"), (Term.app ".length" [(Term.sym "self")])]) then
      let eff1 : Term := (Term.app "call" [add_string_element', (Term.sym "'...'"), rows']);
      let eff2 : Term := (Term.app "call" [add_string_element', (Term.app "fstring" [(Term.sym "'] '"), (Term.app "format" [(Term.app ".dtype_label" [(Term.sym "self")]), (Term.sym ""), (Term.int (-1 : Int))])]), rows']);
      if truth (Term.app "Eq" [(Term.app "len" [rows']), (Term.int (1 : Int))]) then
        let eff3 : Term := (Term.app "store" [(Term.app "getitem" [rows', (Term.int (0 : Int))]), (Term.app "ListComp" [(Term.app ".strip" [(Term.sym "x")]), (Term.app "in" [(Term.sym "x"), (Term.app "getitem" [rows', (Term.int (0 : Int))]), (Term.app "if" [])])])]);
        Out.ret [eff0, eff1, eff2, eff3] (Term.app ".join" [(Term.sym "'\\n'"), (Term.app "GeneratorExp" [(Term.app ".join" [(Term.sym "' '"), (Term.sym "x")]), (Term.app "in" [(Term.sym "x"), rows', (Term.app "if" [])])])])
      else
        Out.ret [eff0, eff1, eff2] (Term.app ".join" [(Term.sym "'\\n'"), (Term.app "GeneratorExp" [(Term.app ".join" [(Term.sym "' '"), (Term.sym "x")]), (Term.app "in" [(Term.sym "x"), rows', (Term.app "if" [])])])])
    else
      let eff1 : Term := (Term.app "call" [add_string_element', (Term.app "fstring" [(Term.sym "'] '"), (Term.app "format" [(Term.app ".dtype_label" [(Term.sym "self")]), (Term.sym ""), (Term.int (-1 : Int))])]), rows']);
      if truth (Term.app "Eq" [(Term.app "len" [rows']), (Term.int (1 : Int))]) then
        let eff2 : Term := (Term.app "store" [(Term.app "getitem" [rows', (Term.int (0 : Int))]), (Term.app "ListComp" [(Term.app ".strip" [(Term.sym "x")]), (Term.app "in" [(Term.sym "x"), (Term.app "getitem" [rows', (Term.int (0 : Int))]), (Term.app "if" [])])])]);
        Out.ret [eff0, eff1, eff2] (Term.app ".join" [(Term.sym "'\\n'"), (Term.app "GeneratorExp" [(Term.app ".join" [(Term.sym "' '"), (Term.sym "x")]), (Term.app "in" [(Term.sym "x"), rows', (Term.app "if" [])])])])
      else
        Out.ret [eff0, eff1] (Term.app ".join" [(Term.sym "'\\n'"), (Term.app "GeneratorExp" [(Term.app ".join" [(Term.sym "' '"), (Term.sym "x")]), (Term.app "in" [(Term.sym "x"), rows', (Term.app "if" [])])])])

/-- the decorators of dataiter/vector.py: Vector.to_string, outermost first -/
def Vector_to_string_decorators : List String := []

/-- the signature of dataiter/vector.py: Vector.to_string: parameters in order, with the source text of their defaults -/
def Vector_to_string_signature : List String := ["self", "*", "max_elements=None"]

/-- the calls of dataiter/vector.py: Vector.to_string in the order Python makes them along the source text -/
def Vector_to_string_call_order : List String := ["util.get_print_width", "min", "self[:n].to_strings", "add_string_element", "add_string_element", "add_string_element", "len", "x.strip", "' '.join", "'\\n'.join"]

/-- dataiter/data_frame.py: DataFrame.to_string (sha256 of the function source: a45e730483bef674) -/
def DataFrame_to_string (truth : Term → Bool) : Out :=
  if (!truth (Term.sym "self")) then
    Out.ret [] (Term.sym "''")
  else
    let max_rows' : Term := (Term.app "Or" [(Term.sym "max_rows"), (Term.sym "dataiter.PRINT_MAX_ROWS")]);
    let max_width' : Term := (Term.app "Or" [(Term.sym "max_width"), (Term.app "util.get_print_width" [])]);
    let truncate_width' : Term := (Term.app "Or" [(Term.sym "truncate_width"), (Term.sym "dataiter.PRINT_TRUNCATE_WIDTH")]);
    let n' : Term := (Term.app "min" [(Term.app ".nrow" [(Term.sym "self")]), max_rows']);
    let columns' : Term := (Term.app "DictComp" [(Term.app "pair" [(Term.sym "colname"), (Term.app "util.upad" [(Term.app "Add" [(Term.app "Add" [(Term.app "list" [(Term.sym "colname")]), (Term.app "list" [(Term.app "str" [(Term.app ".dtype_label" [(Term.sym "column")])])])]), (Term.app "ListComp" [(Term.app "str" [(Term.sym "x")]), (Term.app "in" [(Term.sym "x"), (Term.app ".to_strings" [(Term.app "getitem" [(Term.sym "column"), (Term.app "slice" [(Term.sym "None"), n'])]), (Term.app "=quote" [(Term.sym "False")]), (Term.app "=pad" [(Term.sym "True")]), (Term.app "=truncate_width" [truncate_width'])]), (Term.app "if" [])])])])])]), (Term.app "in" [(Term.app "tuple" [(Term.sym "colname"), (Term.sym "column")]), (Term.app ".items" [(Term.sym "self")]), (Term.app "if" [])])]);
    let eff0 : Term := (Term.app "for" [(Term.sym "column"), (Term.app ".values" [columns']), (Term.app "block" [(Term.app ".insert" [(Term.sym "column"), (Term.int (2 : Int)), (Term.app "Mult" [(Term.sym "'─'"), (Term.app "util.ulen" [(Term.app "getitem" [(Term.sym "column"), (Term.int (0 : Int))])])])])])]);
    let row_numbers' : Term := (Term.app "ListComp" [(Term.app "str" [(Term.sym "i")]), (Term.app "in" [(Term.sym "i"), (Term.app "range" [n']), (Term.app "if" [])])]);
    let row_numbers' : Term := (Term.app "util.upad" [(Term.app "Add" [(Term.app "list" [(Term.sym "''"), (Term.sym "''"), (Term.sym "''")]), row_numbers'])]);
    let rows_to_print' : Term := (Term.app "list" []);
    let eff1 : Term := (Term.app "stmt" [(Term.app "while" [columns', (Term.app "block" [(Term.app "assign" [(Term.sym "first"), (Term.app "next" [(Term.app "iter" [(Term.app ".keys" [columns'])])])]), (Term.app "assign" [(Term.sym "batch_rows"), (Term.app "ListComp" [(Term.app ".join" [(Term.sym "' '"), (Term.sym "x")]), (Term.app "in" [(Term.sym "x"), (Term.app "zip" [row_numbers', (Term.app ".pop" [columns', (Term.sym "first")])]), (Term.app "if" [])])])]), (Term.app "for" [(Term.app "tuple" [(Term.sym "colname"), (Term.sym "column")]), (Term.app "list()" [(Term.app ".items" [columns'])]), (Term.app "block" [(Term.app "assign" [(Term.sym "width"), (Term.app "Add" [(Term.app "util.ulen" [(Term.app "Add" [(Term.app "getitem" [(Term.sym "batch_rows"), (Term.int (0 : Int))]), (Term.app "getitem" [(Term.sym "column"), (Term.int (0 : Int))])])]), (Term.int (1 : Int))])]), (Term.app "if" [(Term.app "Gt" [(Term.sym "width"), max_width']), (Term.app "block" [(Term.sym "break")]), (Term.app "block" [])]), (Term.app "for" [(Term.sym "i"), (Term.app "range" [(Term.app "len" [(Term.sym "column")])]), (Term.app "block" [(Term.app "store" [(Term.app "getitem" [(Term.sym "batch_rows"), (Term.sym "i")]), (Term.app "Add=" [(Term.app "getitem" [(Term.sym "batch_rows"), (Term.sym "i")]), (Term.sym "' '")])]), (Term.app "store" [(Term.app "getitem" [(Term.sym "batch_rows"), (Term.sym "i")]), (Term.app "Add=" [(Term.app "getitem" [(Term.sym "batch_rows"), (Term.sym "i")]), (Term.app "getitem" [(Term.sym "column"), (Term.sym "i")])])])])]), (Term.app "del" [(Term.app "getitem" [columns', (Term.sym "colname")])])])]), (Term.app ".append" [rows_to_print', (Term.app "ifexp" [rows_to_print', (Term.sym "''"), (Term.sym "'.'")])]), (Term.app "assign" [(Term.sym "rows_to_print"), (Term.app "Add=" [rows_to_print', (Term.sym "batch_rows")])])])])]);
    let first' : Term := (Term.app "value-after-loop" [(Term.sym "first"), eff1]);
    let batch_rows' : Term := (Term.app "value-after-loop" [(Term.sym "batch_rows"), eff1]);
    let colname' : Term := (Term.app "value-after-loop" [(Term.sym "colname"), eff1]);
    let column' : Term := (Term.app "value-after-loop" [(Term.sym "column"), eff1]);
    let rows_to_print' : Term := (Term.app "value-after-loop" [(Term.sym "rows_to_print"), eff1]);
    let width' : Term := (Term.app "value-after-loop" [(Term.sym "width"), eff1]);
    let i' : Term := (Term.app "value-after-loop" [(Term.sym "i"), eff1]);
    let eff2 : Term := (Term.app ".append" [rows_to_print', (Term.sym "'.'")]);
    if truth (Term.app "Lt" [max_rows', (Term.app ".nrow" [(Term.sym "self")])]) then
      let eff3 : Term := (Term.app ".append" [rows_to_print', (Term.app "fstring" [(Term.sym "'... '"), (Term.app "format" [(Term.app ".nrow" [(Term.sym "self")]), (Term.sym ""), (Term.int (-1 : Int))]), (Term.sym "' rows total'")])]);
      Out.ret [eff0, eff1, eff2, eff3] (Term.app ".join" [(Term.sym "'\\n'"), rows_to_print'])
    else
      Out.ret [eff0, eff1, eff2] (Term.app ".join" [(Term.sym "'\\n'"), rows_to_print'])

/-- the decorators of dataiter/data_frame.py: DataFrame.to_string, outermost first -/
def DataFrame_to_string_decorators : List String := []

/-- the signature of dataiter/data_frame.py: DataFrame.to_string: parameters in order, with the source text of their defaults -/
def DataFrame_to_string_signature : List String := ["self", "*", "max_rows=None", "max_width=None", "truncate_width=None"]

/-- the calls of dataiter/data_frame.py: DataFrame.to_string in the order Python makes them along the source text -/
def DataFrame_to_string_call_order : List String := ["util.get_print_width", "min", "str", "str", "column[:n].to_strings", "util.upad", "self.items", "columns.values", "util.ulen", "column.insert", "str", "range", "util.upad", "columns.keys", "iter", "next", "' '.join", "columns.pop", "zip", "columns.items", "list", "util.ulen", "len", "range", "rows_to_print.append", "rows_to_print.append", "rows_to_print.append", "'\\n'.join"]

/-- dataiter/list_of_dicts.py: ListOfDicts.to_string (sha256 of the function source: 663c6277011aea63) -/
def ListOfDicts_to_string (truth : Term → Bool) (max_items_is_None : Bool) : Out :=
  if max_items_is_None then
    let max_items' : Term := (Term.sym "dataiter.PRINT_MAX_ITEMS");
    let string' : Term := (Term.app ".to_json" [(Term.app ".head" [(Term.sym "self"), max_items'])]);
    if truth (Term.app "Lt" [max_items', (Term.app "len" [(Term.sym "self")])]) then
      let string' : Term := (Term.app "Add=" [string', (Term.app "fstring" [(Term.sym "' ... '"), (Term.app "format" [(Term.app "len" [(Term.sym "self")]), (Term.sym ""), (Term.int (-1 : Int))]), (Term.sym "' items total'")])]);
      Out.ret [] string'
    else
      Out.ret [] string'
  else
    let string' : Term := (Term.app ".to_json" [(Term.app ".head" [(Term.sym "self"), (Term.sym "max_items")])]);
    if truth (Term.app "Lt" [(Term.sym "max_items"), (Term.app "len" [(Term.sym "self")])]) then
      let string' : Term := (Term.app "Add=" [string', (Term.app "fstring" [(Term.sym "' ... '"), (Term.app "format" [(Term.app "len" [(Term.sym "self")]), (Term.sym ""), (Term.int (-1 : Int))]), (Term.sym "' items total'")])]);
      Out.ret [] string'
    else
      Out.ret [] string'

/-- the decorators of dataiter/list_of_dicts.py: ListOfDicts.to_string, outermost first -/
def ListOfDicts_to_string_decorators : List String := []

/-- the signature of dataiter/list_of_dicts.py: ListOfDicts.to_string: parameters in order, with the source text of their defaults -/
def ListOfDicts_to_string_signature : List String := ["self", "*", "max_items=None"]

/-- the calls of dataiter/list_of_dicts.py: ListOfDicts.to_string in the order Python makes them along the source text -/
def ListOfDicts_to_string_call_order : List String := ["self.head", "self.head(max_items).to_json", "len", "len"]

/-- dataiter/data_frame.py: DataFrame.__repr__ (sha256 of the function source: 9bfe44df73a572c4) -/
def DataFrame_repr (truth : Term → Bool) : Out :=
  Out.ret [] (Term.app ".to_string" [(Term.sym "self")])

/-- the decorators of dataiter/data_frame.py: DataFrame.__repr__, outermost first -/
def DataFrame_repr_decorators : List String := []

/-- the signature of dataiter/data_frame.py: DataFrame.__repr__: parameters in order, with the source text of their defaults -/
def DataFrame_repr_signature : List String := ["self"]

/-- the calls of dataiter/data_frame.py: DataFrame.__repr__ in the order Python makes them along the source text -/
def DataFrame_repr_call_order : List String := ["self.to_string"]

/-- dataiter/data_frame.py: DataFrame.__str__ (sha256 of the function source: 611ecb642c6e3656) -/
def DataFrame_str (truth : Term → Bool) : Out :=
  Out.ret [] (Term.app ".to_string" [(Term.sym "self")])

/-- the decorators of dataiter/data_frame.py: DataFrame.__str__, outermost first -/
def DataFrame_str_decorators : List String := []

/-- the signature of dataiter/data_frame.py: DataFrame.__str__: parameters in order, with the source text of their defaults -/
def DataFrame_str_signature : List String := ["self"]

/-- the calls of dataiter/data_frame.py: DataFrame.__str__ in the order Python makes them along the source text -/
def DataFrame_str_call_order : List String := ["self.to_string"]

/-- dataiter/data_frame.py: DataFrame.print_ (sha256 of the function source: c6b5fbf47b4cf4f3) -/
def DataFrame_print (truth : Term → Bool) : Out :=
  let eff0 : Term := (Term.app "print" [(Term.app ".to_string" [(Term.sym "self"), (Term.app "=max_rows" [(Term.sym "max_rows")]), (Term.app "=max_width" [(Term.sym "max_width")]), (Term.app "=truncate_width" [(Term.sym "truncate_width")])])]);
  Out.fall [eff0]

/-- the decorators of dataiter/data_frame.py: DataFrame.print_, outermost first -/
def DataFrame_print_decorators : List String := []

/-- the signature of dataiter/data_frame.py: DataFrame.print_: parameters in order, with the source text of their defaults -/
def DataFrame_print_signature : List String := ["self", "*", "max_rows=None", "max_width=None", "truncate_width=None"]

/-- the calls of dataiter/data_frame.py: DataFrame.print_ in the order Python makes them along the source text -/
def DataFrame_print_call_order : List String := ["self.to_string", "print"]

/-- dataiter/data_frame.py: DataFrame.print_memory_use (sha256 of the function source: bb19e82eea644a9c) -/
def DataFrame_print_memory_use (truth : Term → Bool) : Out :=
  let mem' : Term := (Term.app "DataFrame" []);
  let eff0 : Term := (Term.app "for" [(Term.app "tuple" [(Term.sym "name"), (Term.sym "column")]), (Term.app ".items" [(Term.sym "self")]), (Term.app "block" [(Term.app "assign" [(Term.sym "new"), (Term.app "DataFrame" [(Term.app "=column" [(Term.sym "name")])])]), (Term.app "store" [(Term.app ".dtype" [(Term.sym "new")]), (Term.app "str" [(Term.app ".dtype" [(Term.sym "column")])])]), (Term.app "store" [(Term.app ".item_size" [(Term.sym "new")]), (Term.app ".itemsize" [(Term.sym "column")])]), (Term.app "store" [(Term.app ".total_size" [(Term.sym "new")]), (Term.app ".get_memory_use" [(Term.sym "column")])]), (Term.app "assign" [(Term.sym "mem"), (Term.app ".rbind" [(Term.sym "mem"), (Term.sym "new")])])]), (Term.app "init" [(Term.sym "mem"), mem'])]);
  let new' : Term := (Term.app "value-after-loop" [(Term.sym "new"), eff0]);
  let mem' : Term := (Term.app "value-after-loop" [(Term.sym "mem"), eff0]);
  let new' : Term := (Term.app "DataFrame" [(Term.app "=column" [(Term.sym "'TOTAL'")])]);
  let attr1_1' : Term := (Term.sym "'--'");
  let eff1 : Term := (Term.app "setattr" [new', (Term.sym "dtype"), attr1_1']);
  let attr2_1' : Term := (Term.app ".sum" [(Term.app ".item_size" [mem'])]);
  let eff2 : Term := (Term.app "setattr" [new', (Term.sym "item_size"), attr2_1']);
  let attr3_1' : Term := (Term.app ".sum" [(Term.app ".total_size" [mem'])]);
  let eff3 : Term := (Term.app "setattr" [new', (Term.sym "total_size"), attr3_1']);
  let mem' : Term := (Term.app ".rbind" [mem', new']);
  let attr4_1' : Term := (Term.app "ListComp" [(Term.app "fstring" [(Term.app "format" [(Term.sym "x"), (Term.sym "f'.0f'"), (Term.int (-1 : Int))]), (Term.sym "' B'")]), (Term.app "in" [(Term.sym "x"), (Term.app ".item_size" [mem']), (Term.app "if" [])])]);
  let eff4 : Term := (Term.app "setattr" [mem', (Term.sym "item_size"), attr4_1']);
  let attr5_1' : Term := (Term.app "ListComp" [(Term.app "fstring" [(Term.app "format" [(Term.app "Div" [(Term.sym "x"), (Term.app "Pow" [(Term.int (1024 : Int)), (Term.int (2 : Int))])]), (Term.sym "f',.0f'"), (Term.int (-1 : Int))]), (Term.sym "' MB'")]), (Term.app "in" [(Term.sym "x"), (Term.app ".total_size" [mem']), (Term.app "if" [])])]);
  let eff5 : Term := (Term.app "setattr" [mem', (Term.sym "total_size"), attr5_1']);
  let attr6_1' : Term := (Term.app "ListComp" [(Term.app ".upper" [(Term.sym "x")]), (Term.app "in" [(Term.sym "x"), (Term.app ".colnames" [mem']), (Term.app "if" [])])]);
  let eff6 : Term := (Term.app "setattr" [mem', (Term.sym "colnames"), attr6_1']);
  let eff7 : Term := (Term.app "print" [mem']);
  Out.fall [eff0, eff1, eff2, eff3, eff4, eff5, eff6, eff7]

/-- the decorators of dataiter/data_frame.py: DataFrame.print_memory_use, outermost first -/
def DataFrame_print_memory_use_decorators : List String := []

/-- the signature of dataiter/data_frame.py: DataFrame.print_memory_use: parameters in order, with the source text of their defaults -/
def DataFrame_print_memory_use_signature : List String := ["self"]

/-- the calls of dataiter/data_frame.py: DataFrame.print_memory_use in the order Python makes them along the source text -/
def DataFrame_print_memory_use_call_order : List String := ["DataFrame", "self.items", "DataFrame", "str", "column.get_memory_use", "mem.rbind", "DataFrame", "mem.item_size.sum", "mem.total_size.sum", "mem.rbind", "x.upper", "print"]

/-- dataiter/data_frame.py: DataFrame.print_na_counts (sha256 of the function source: ebd027dc8b809943) -/
def DataFrame_print_na_counts (truth : Term → Bool) : Out :=
  let nas' : Term := (Term.app "DataFrame" []);
  let eff0 : Term := (Term.app "for" [(Term.sym "name"), (Term.app ".colnames" [(Term.sym "self")]), (Term.app "block" [(Term.app "assign" [(Term.sym "n"), (Term.app ".sum" [(Term.app ".is_na" [(Term.app "getitem" [(Term.sym "self"), (Term.sym "name")])])])]), (Term.app "if" [(Term.app "Eq" [(Term.sym "n"), (Term.int (0 : Int))]), (Term.app "block" [(Term.sym "continue")]), (Term.app "block" [])]), (Term.app "assign" [(Term.sym "nas"), (Term.app ".rbind" [(Term.sym "nas"), (Term.app "DataFrame" [(Term.app "=column" [(Term.sym "name")]), (Term.app "=nna" [(Term.sym "n")])])])])]), (Term.app "init" [(Term.sym "nas"), nas'])]);
  let n' : Term := (Term.app "value-after-loop" [(Term.sym "n"), eff0]);
  let nas' : Term := (Term.app "value-after-loop" [(Term.sym "nas"), eff0]);
  if (!truth nas') then
    Out.ret [eff0] (Term.sym "None")
  else
    let attr1_2' : Term := (Term.app "ListComp" [(Term.app "fstring" [(Term.app "format" [(Term.app "Div" [(Term.app "Mult" [(Term.int (100 : Int)), (Term.sym "x")]), (Term.app ".nrow" [(Term.sym "self")])]), (Term.sym "f'.1f'"), (Term.int (-1 : Int))]), (Term.sym "'%'")]), (Term.app "in" [(Term.sym "x"), (Term.app ".nna" [nas']), (Term.app "if" [])])]);
    let eff1 : Term := (Term.app "setattr" [nas', (Term.sym "pna"), attr1_2']);
    let attr2_2' : Term := (Term.app "ListComp" [(Term.app ".upper" [(Term.sym "x")]), (Term.app "in" [(Term.sym "x"), (Term.app ".colnames" [nas']), (Term.app "if" [])])]);
    let eff2 : Term := (Term.app "setattr" [nas', (Term.sym "colnames"), attr2_2']);
    let eff3 : Term := (Term.app "print" [nas']);
    Out.fall [eff0, eff1, eff2, eff3]

/-- the decorators of dataiter/data_frame.py: DataFrame.print_na_counts, outermost first -/
def DataFrame_print_na_counts_decorators : List String := []

/-- the signature of dataiter/data_frame.py: DataFrame.print_na_counts: parameters in order, with the source text of their defaults -/
def DataFrame_print_na_counts_signature : List String := ["self"]

/-- the calls of dataiter/data_frame.py: DataFrame.print_na_counts in the order Python makes them along the source text -/
def DataFrame_print_na_counts_call_order : List String := ["DataFrame", "self[name].is_na", "self[name].is_na().sum", "DataFrame", "nas.rbind", "x.upper", "print"]

/-- dataiter/list_of_dicts.py: ListOfDicts.__repr__ (sha256 of the function source: 9bfe44df73a572c4) -/
def ListOfDicts_repr (truth : Term → Bool) : Out :=
  Out.ret [] (Term.app ".to_string" [(Term.sym "self")])

/-- the decorators of dataiter/list_of_dicts.py: ListOfDicts.__repr__, outermost first -/
def ListOfDicts_repr_decorators : List String := []

/-- the signature of dataiter/list_of_dicts.py: ListOfDicts.__repr__: parameters in order, with the source text of their defaults -/
def ListOfDicts_repr_signature : List String := ["self"]

/-- the calls of dataiter/list_of_dicts.py: ListOfDicts.__repr__ in the order Python makes them along the source text -/
def ListOfDicts_repr_call_order : List String := ["self.to_string"]

/-- dataiter/list_of_dicts.py: ListOfDicts.__str__ (sha256 of the function source: 611ecb642c6e3656) -/
def ListOfDicts_str (truth : Term → Bool) : Out :=
  Out.ret [] (Term.app ".to_string" [(Term.sym "self")])

/-- the decorators of dataiter/list_of_dicts.py: ListOfDicts.__str__, outermost first -/
def ListOfDicts_str_decorators : List String := []

/-- the signature of dataiter/list_of_dicts.py: ListOfDicts.__str__: parameters in order, with the source text of their defaults -/
def ListOfDicts_str_signature : List String := ["self"]

/-- the calls of dataiter/list_of_dicts.py: ListOfDicts.__str__ in the order Python makes them along the source text -/
def ListOfDicts_str_call_order : List String := ["self.to_string"]

/-- dataiter/list_of_dicts.py: ListOfDicts.print_ (sha256 of the function source: bb8359935940bcf8) -/
def ListOfDicts_print (truth : Term → Bool) : Out :=
  let eff0 : Term := (Term.app "print" [(Term.app ".to_string" [(Term.sym "self"), (Term.app "=max_items" [(Term.sym "max_items")])])]);
  Out.fall [eff0]

/-- the decorators of dataiter/list_of_dicts.py: ListOfDicts.print_, outermost first -/
def ListOfDicts_print_decorators : List String := []

/-- the signature of dataiter/list_of_dicts.py: ListOfDicts.print_: parameters in order, with the source text of their defaults -/
def ListOfDicts_print_signature : List String := ["self", "*", "max_items=None"]

/-- the calls of dataiter/list_of_dicts.py: ListOfDicts.print_ in the order Python makes them along the source text -/
def ListOfDicts_print_call_order : List String := ["self.to_string", "print"]

/-- dataiter/list_of_dicts.py: ListOfDicts.print_memory_use (sha256 of the function source: 2bfddd9d16c901c0) -/
def ListOfDicts_print_memory_use (truth : Term → Bool) : Out :=
  let mem' : Term := (Term.app "DataFrame" []);
  let eff0 : Term := (Term.app "for" [(Term.sym "key"), (Term.app ".keys" [(Term.sym "self")]), (Term.app "block" [(Term.app "assign" [(Term.sym "new"), (Term.app "DataFrame" [(Term.app "=key" [(Term.sym "key")])])]), (Term.app "assign" [(Term.sym "values"), (Term.app ".pluck" [(Term.sym "self"), (Term.sym "key")])]), (Term.app "assign" [(Term.sym "values_real"), (Term.app "list()" [(Term.app "filter" [(Term.sym "None"), (Term.sym "values")])])]), (Term.app "assign" [(Term.sym "first"), (Term.app "ifexp" [(Term.sym "values_real"), (Term.app "getitem" [(Term.sym "values_real"), (Term.int (0 : Int))]), (Term.sym "None")])]), (Term.app "assign" [(Term.sym "total"), (Term.app "sum" [(Term.app "GeneratorExp" [(Term.app "sys.getsizeof" [(Term.sym "x")]), (Term.app "in" [(Term.sym "x"), (Term.sym "values"), (Term.app "if" [])])])])]), (Term.app "store" [(Term.app ".type" [(Term.sym "new")]), (Term.app ".__name__" [(Term.app ".__class__" [(Term.sym "first")])])]), (Term.app "store" [(Term.app ".item_size" [(Term.sym "new")]), (Term.app "int" [(Term.app "round" [(Term.app "Div" [(Term.sym "total"), (Term.app "len" [(Term.sym "values")])])])])]), (Term.app "store" [(Term.app ".total_size" [(Term.sym "new")]), (Term.sym "total")]), (Term.app "assign" [(Term.sym "mem"), (Term.app ".rbind" [(Term.sym "mem"), (Term.sym "new")])])]), (Term.app "init" [(Term.sym "mem"), mem'])]);
  let new' : Term := (Term.app "value-after-loop" [(Term.sym "new"), eff0]);
  let values' : Term := (Term.app "value-after-loop" [(Term.sym "values"), eff0]);
  let values_real' : Term := (Term.app "value-after-loop" [(Term.sym "values_real"), eff0]);
  let first' : Term := (Term.app "value-after-loop" [(Term.sym "first"), eff0]);
  let total' : Term := (Term.app "value-after-loop" [(Term.sym "total"), eff0]);
  let mem' : Term := (Term.app "value-after-loop" [(Term.sym "mem"), eff0]);
  let new' : Term := (Term.app "DataFrame" [(Term.app "=key" [(Term.sym "'TOTAL'")])]);
  let attr1_1' : Term := (Term.sym "'--'");
  let eff1 : Term := (Term.app "setattr" [new', (Term.sym "type"), attr1_1']);
  let attr2_1' : Term := (Term.app ".sum" [(Term.app ".item_size" [mem'])]);
  let eff2 : Term := (Term.app "setattr" [new', (Term.sym "item_size"), attr2_1']);
  let attr3_1' : Term := (Term.app ".sum" [(Term.app ".total_size" [mem'])]);
  let eff3 : Term := (Term.app "setattr" [new', (Term.sym "total_size"), attr3_1']);
  let mem' : Term := (Term.app ".rbind" [mem', new']);
  let attr4_1' : Term := (Term.app "ListComp" [(Term.app "fstring" [(Term.app "format" [(Term.sym "x"), (Term.sym "f'.0f'"), (Term.int (-1 : Int))]), (Term.sym "' B'")]), (Term.app "in" [(Term.sym "x"), (Term.app ".item_size" [mem']), (Term.app "if" [])])]);
  let eff4 : Term := (Term.app "setattr" [mem', (Term.sym "item_size"), attr4_1']);
  let attr5_1' : Term := (Term.app "ListComp" [(Term.app "fstring" [(Term.app "format" [(Term.app "Div" [(Term.sym "x"), (Term.app "Pow" [(Term.int (1024 : Int)), (Term.int (2 : Int))])]), (Term.sym "f',.0f'"), (Term.int (-1 : Int))]), (Term.sym "' MB'")]), (Term.app "in" [(Term.sym "x"), (Term.app ".total_size" [mem']), (Term.app "if" [])])]);
  let eff5 : Term := (Term.app "setattr" [mem', (Term.sym "total_size"), attr5_1']);
  let attr6_1' : Term := (Term.app "ListComp" [(Term.app ".upper" [(Term.sym "x")]), (Term.app "in" [(Term.sym "x"), (Term.app ".colnames" [mem']), (Term.app "if" [])])]);
  let eff6 : Term := (Term.app "setattr" [mem', (Term.sym "colnames"), attr6_1']);
  let eff7 : Term := (Term.app "print" [mem']);
  Out.fall [eff0, eff1, eff2, eff3, eff4, eff5, eff6, eff7]

/-- the decorators of dataiter/list_of_dicts.py: ListOfDicts.print_memory_use, outermost first -/
def ListOfDicts_print_memory_use_decorators : List String := []

/-- the signature of dataiter/list_of_dicts.py: ListOfDicts.print_memory_use: parameters in order, with the source text of their defaults -/
def ListOfDicts_print_memory_use_signature : List String := ["self"]

/-- the calls of dataiter/list_of_dicts.py: ListOfDicts.print_memory_use in the order Python makes them along the source text -/
def ListOfDicts_print_memory_use_call_order : List String := ["DataFrame", "self.keys", "DataFrame", "self.pluck", "filter", "list", "sys.getsizeof", "sum", "len", "round", "int", "mem.rbind", "DataFrame", "mem.item_size.sum", "mem.total_size.sum", "mem.rbind", "x.upper", "print"]

/-- dataiter/list_of_dicts.py: ListOfDicts.print_na_counts (sha256 of the function source: b4313fbdd42647e5) -/
def ListOfDicts_print_na_counts (truth : Term → Bool) : Out :=
  let eff0 : Term := (Term.app "print" [(Term.sym "'Missing counts:'")]);
  let eff1 : Term := (Term.app "for" [(Term.sym "key"), (Term.app ".keys" [(Term.sym "self")]), (Term.app "block" [(Term.app "assign" [(Term.sym "n"), (Term.app "sum" [(Term.app "GeneratorExp" [(Term.app "Is" [(Term.app ".get" [(Term.sym "x"), (Term.sym "key"), (Term.sym "None")]), (Term.sym "None")]), (Term.app "in" [(Term.sym "x"), (Term.sym "self"), (Term.app "if" [])])])])]), (Term.app "if" [(Term.app "Eq" [(Term.sym "n"), (Term.int (0 : Int))]), (Term.app "block" [(Term.sym "continue")]), (Term.app "block" [])]), (Term.app "assign" [(Term.sym "pc"), (Term.app "Div" [(Term.app "Mult" [(Term.int (100 : Int)), (Term.sym "n")]), (Term.app "len" [(Term.sym "self")])])]), (Term.app "print" [(Term.app "fstring" [(Term.sym "'... '"), (Term.app "format" [(Term.sym "key"), (Term.sym ""), (Term.int (-1 : Int))]), (Term.sym "': '"), (Term.app "format" [(Term.sym "n"), (Term.sym ""), (Term.int (-1 : Int))]), (Term.sym "' ('"), (Term.app "format" [(Term.sym "pc"), (Term.sym "f'.1f'"), (Term.int (-1 : Int))]), (Term.sym "'%)'")])])])]);
  let n' : Term := (Term.app "value-after-loop" [(Term.sym "n"), eff1]);
  let pc' : Term := (Term.app "value-after-loop" [(Term.sym "pc"), eff1]);
  Out.fall [eff0, eff1]

/-- the decorators of dataiter/list_of_dicts.py: ListOfDicts.print_na_counts, outermost first -/
def ListOfDicts_print_na_counts_decorators : List String := []

/-- the signature of dataiter/list_of_dicts.py: ListOfDicts.print_na_counts: parameters in order, with the source text of their defaults -/
def ListOfDicts_print_na_counts_signature : List String := ["self"]

/-- the calls of dataiter/list_of_dicts.py: ListOfDicts.print_na_counts in the order Python makes them along the source text -/
def ListOfDicts_print_na_counts_call_order : List String := ["print", "self.keys", "x.get", "sum", "len", "print"]

/-- dataiter/vector.py: Vector.__repr__ (sha256 of the function source: 9bfe44df73a572c4) -/
def Vector_repr (truth : Term → Bool) : Out :=
  Out.ret [] (Term.app ".to_string" [(Term.sym "self")])

/-- the decorators of dataiter/vector.py: Vector.__repr__, outermost first -/
def Vector_repr_decorators : List String := []

/-- the signature of dataiter/vector.py: Vector.__repr__: parameters in order, with the source text of their defaults -/
def Vector_repr_signature : List String := ["self"]

/-- the calls of dataiter/vector.py: Vector.__repr__ in the order Python makes them along the source text -/
def Vector_repr_call_order : List String := ["self.to_string"]

/-- dataiter/vector.py: Vector.__str__ (sha256 of the function source: 611ecb642c6e3656) -/
def Vector_str2 (truth : Term → Bool) : Out :=
  Out.ret [] (Term.app ".to_string" [(Term.sym "self")])

/-- the decorators of dataiter/vector.py: Vector.__str__, outermost first -/
def Vector_str2_decorators : List String := []

/-- the signature of dataiter/vector.py: Vector.__str__: parameters in order, with the source text of their defaults -/
def Vector_str2_signature : List String := ["self"]

/-- the calls of dataiter/vector.py: Vector.__str__ in the order Python makes them along the source text -/
def Vector_str2_call_order : List String := ["self.to_string"]

/-- dataiter/vector.py: Vector.dtype_label (sha256 of the function source: f79390e5d859888e) -/
def Vector_dtype_label (truth : Term → Bool) : Out :=
  if truth (Term.app ".is_string" [(Term.sym "self")]) then
    Out.ret [] (Term.sym "'string'")
  else
    Out.ret [] (Term.app "str" [(Term.app ".dtype" [(Term.sym "self")])])

/-- the decorators of dataiter/vector.py: Vector.dtype_label, outermost first -/
def Vector_dtype_label_decorators : List String := ["property"]

/-- the signature of dataiter/vector.py: Vector.dtype_label: parameters in order, with the source text of their defaults -/
def Vector_dtype_label_signature : List String := ["self"]

/-- the calls of dataiter/vector.py: Vector.dtype_label in the order Python makes them along the source text -/
def Vector_dtype_label_call_order : List String := ["self.is_string", "str"]

/-- dataiter/vector.py: Vector.to_string.add_string_element (sha256 of the function source: 0e6137066df8e8e9) -/
def Vector_to_string_add_string_element (truth : Term → Bool) : Out :=
  if truth (Term.app "LtE" [(Term.app "len" [(Term.app "getitem" [(Term.sym "rows"), (Term.int (-(1 : Int)))])]), (Term.int (1 : Int))]) then
    Out.ret [] (Term.app ".append" [(Term.app "getitem" [(Term.sym "rows"), (Term.int (-(1 : Int)))]), (Term.sym "string")])
  else
    let row' : Term := (Term.app ".join" [(Term.sym "' '"), (Term.app "Add" [(Term.app "getitem" [(Term.sym "rows"), (Term.int (-(1 : Int)))]), (Term.app "list" [(Term.sym "string")])])]);
    if truth (Term.app "Lt" [(Term.app "util.ulen" [row']), (Term.sym "print_width")]) then
      Out.ret [] (Term.app ".append" [(Term.app "getitem" [(Term.sym "rows"), (Term.int (-(1 : Int)))]), (Term.sym "string")])
    else
      Out.ret [] (Term.app ".append" [(Term.sym "rows"), (Term.app "list" [(Term.sym "' '"), (Term.sym "string")])])

/-- the decorators of dataiter/vector.py: Vector.to_string.add_string_element, outermost first -/
def Vector_to_string_add_string_element_decorators : List String := []

/-- the signature of dataiter/vector.py: Vector.to_string.add_string_element: parameters in order, with the source text of their defaults -/
def Vector_to_string_add_string_element_signature : List String := ["string", "rows"]

/-- the calls of dataiter/vector.py: Vector.to_string.add_string_element in the order Python makes them along the source text -/
def Vector_to_string_add_string_element_call_order : List String := ["len", "rows[-1].append", "' '.join", "util.ulen", "rows[-1].append", "rows.append"]

/-- dataiter/util.py: count_digits (sha256 of the function source: 9972f3d695e978dd) -/
def util_count_digits (truth : Term → Bool) : Out :=
  if truth (Term.app "np.isnan" [(Term.sym "value")]) then
    Out.ret [] (Term.app "tuple" [(Term.int (0 : Int)), (Term.int (0 : Int))])
  else
    if truth (Term.app "math.isinf" [(Term.sym "value")]) then
      Out.ret [] (Term.app "tuple" [(Term.int (0 : Int)), (Term.int (0 : Int))])
    else
      let parts' : Term := (Term.app ".split" [(Term.app "np.format_float_positional" [(Term.sym "value")]), (Term.sym "'.'")]);
      let n' : Term := (Term.app "len" [(Term.app ".lstrip" [(Term.app "getitem" [parts', (Term.int (0 : Int))]), (Term.sym "'0'")])]);
      let m' : Term := (Term.app "len" [(Term.app ".rstrip" [(Term.app "getitem" [parts', (Term.int (1 : Int))]), (Term.sym "'0'")])]);
      Out.ret [] (Term.app "tuple" [n', m'])

/-- the decorators of dataiter/util.py: count_digits, outermost first -/
def util_count_digits_decorators : List String := []

/-- the signature of dataiter/util.py: count_digits: parameters in order, with the source text of their defaults -/
def util_count_digits_signature : List String := ["value"]

/-- the calls of dataiter/util.py: count_digits in the order Python makes them along the source text -/
def util_count_digits_call_order : List String := ["np.isnan", "math.isinf", "np.format_float_positional", "np.format_float_positional(value).split", "parts[0].lstrip", "len", "parts[1].rstrip", "len"]

/-- dataiter/util.py: quote (sha256 of the function source: bcfb4e6915234b62) -/
def util_quote (truth : Term → Bool) : Out :=
  Out.ret [] (Term.app ".format" [(Term.sym "'\"{}\"'"), (Term.app ".replace" [(Term.app "str" [(Term.sym "value")]), (Term.sym "'\"'"), (Term.sym "'\\\\\"'")])])

/-- the decorators of dataiter/util.py: quote, outermost first -/
def util_quote_decorators : List String := []

/-- the signature of dataiter/util.py: quote: parameters in order, with the source text of their defaults -/
def util_quote_signature : List String := ["value"]

/-- the calls of dataiter/util.py: quote in the order Python makes them along the source text -/
def util_quote_call_order : List String := ["str", "str(value).replace", "'\"{}\"'.format"]

/-- dataiter/util.py: get_print_width (sha256 of the function source: 5c51806a25379ade) -/
def util_get_print_width (truth : Term → Bool) : Out :=
  Out.ret [] (Term.app "Sub" [(Term.app "getitem" [(Term.app "shutil.get_terminal_size" [(Term.app "tuple" [(Term.sym "dataiter.PRINT_MAX_WIDTH"), (Term.int (24 : Int))])]), (Term.int (0 : Int))]), (Term.int (1 : Int))])

/-- the decorators of dataiter/util.py: get_print_width, outermost first -/
def util_get_print_width_decorators : List String := []

/-- the signature of dataiter/util.py: get_print_width: parameters in order, with the source text of their defaults -/
def util_get_print_width_signature : List String := []

/-- the calls of dataiter/util.py: get_print_width in the order Python makes them along the source text -/
def util_get_print_width_call_order : List String := ["shutil.get_terminal_size"]

/-- dataiter/geojson.py: GeoJSON.to_string (sha256 of the function source: 68996a033ba20418) -/
def GeoJSON_to_string (truth : Term → Bool) : Out :=
  if truth (Term.app "In" [(Term.sym "'geometry'"), (Term.app ".colnames" [(Term.sym "self")])]) then
    let geometry' : Term := (Term.app "ListComp" [(Term.app "ifexp" [(Term.sym "x"), (Term.app "fstring" [(Term.sym "'<'"), (Term.app "format" [(Term.app "getitem" [(Term.sym "x"), (Term.sym "'type'")]), (Term.sym ""), (Term.int (-1 : Int))]), (Term.sym "'>'")]), (Term.app "str" [(Term.sym "x")])]), (Term.app "in" [(Term.sym "x"), (Term.app ".geometry" [(Term.sym "self")]), (Term.app "if" [])])]);
    let self' : Term := (Term.app ".copy" [(Term.sym "self")]);
    let eff0 : Term := (Term.app "store" [(Term.app "getitem" [self', (Term.sym "'geometry'")]), (Term.app "Vector.fast" [geometry', (Term.sym "object")])]);
    Out.ret [eff0] (Term.app "DataFrame.to_string" [self', (Term.app "=max_rows" [(Term.sym "max_rows")]), (Term.app "=max_width" [(Term.sym "max_width")]), (Term.app "=truncate_width" [(Term.sym "truncate_width")])])
  else
    Out.ret [] (Term.app "DataFrame.to_string" [(Term.sym "self"), (Term.app "=max_rows" [(Term.sym "max_rows")]), (Term.app "=max_width" [(Term.sym "max_width")]), (Term.app "=truncate_width" [(Term.sym "truncate_width")])])

/-- the decorators of dataiter/geojson.py: GeoJSON.to_string, outermost first -/
def GeoJSON_to_string_decorators : List String := []

/-- the signature of dataiter/geojson.py: GeoJSON.to_string: parameters in order, with the source text of their defaults -/
def GeoJSON_to_string_signature : List String := ["self", "*", "max_rows=None", "max_width=None", "truncate_width=None"]

/-- the calls of dataiter/geojson.py: GeoJSON.to_string in the order Python makes them along the source text -/
def GeoJSON_to_string_call_order : List String := ["str", "self.copy", "Vector.fast", "DataFrame.to_string"]

end DI.Gen

/-
  Generated/CodeC04.lean — REGENERATED on every run by harness/py2lean.py from the current source of
  /repo (symbolic execution of small control-flow functions; see Model/PyCore.lean).  Do not edit.
-/
import Model.PyCore

set_option linter.unusedVariables false

namespace DI.Gen

open DI.Py

/-- dataiter/data_frame.py: DataFrame.count (sha256 of the function source: 12ba5e7c0980dff5) -/
def DataFrame_count (truth : Term → Bool) : Out :=
  Out.ret [] (Term.app ".aggregate" [(Term.app ".group_by" [(Term.app ".copy" [(Term.sym "self")]), (Term.app "*" [(Term.sym "colnames")])]), (Term.app "=n" [(Term.app "dataiter.count" [])])])

/-- the decorators of dataiter/data_frame.py: DataFrame.count, outermost first -/
def DataFrame_count_decorators : List String := []

/-- the signature of dataiter/data_frame.py: DataFrame.count: parameters in order, with the source text of their defaults -/
def DataFrame_count_signature : List String := ["self", "*colnames"]

/-- the calls of dataiter/data_frame.py: DataFrame.count in the order Python makes them along the source text -/
def DataFrame_count_call_order : List String := ["self.copy", "self.copy().group_by", "dataiter.count", "self.copy().group_by(*colnames).aggregate"]

/-- dataiter/data_frame.py: DataFrame.group_by (sha256 of the function source: 2edbc614a7896e6a) -/
def DataFrame_group_by (truth : Term → Bool) : Out :=
  let attr0_1' : Term := (Term.app "tuple()" [(Term.sym "colnames")]);
  let eff0 : Term := (Term.app "setattr" [(Term.sym "self"), (Term.sym "_group_colnames"), attr0_1']);
  Out.ret [eff0] (Term.sym "self")

/-- the decorators of dataiter/data_frame.py: DataFrame.group_by, outermost first -/
def DataFrame_group_by_decorators : List String := []

/-- the signature of dataiter/data_frame.py: DataFrame.group_by: parameters in order, with the source text of their defaults -/
def DataFrame_group_by_signature : List String := ["self", "*colnames"]

/-- the calls of dataiter/data_frame.py: DataFrame.group_by in the order Python makes them along the source text -/
def DataFrame_group_by_call_order : List String := ["tuple"]

/-- dataiter/data_frame.py: DataFrame.aggregate (sha256 of the function source: b899e50be4539025) -/
def DataFrame_aggregate (truth : Term → Bool) : Out :=
  let group_colnames' : Term := (Term.app "._group_colnames" [(Term.sym "self")]);
  let data' : Term := (Term.app ".sort" [(Term.sym "self"), (Term.app "=**" [(Term.app "dict.fromkeys" [group_colnames', (Term.int (1 : Int))])])]);
  let attr0_1' : Term := (Term.app "np.arange" [(Term.app ".nrow" [data'])]);
  let eff0 : Term := (Term.app "setattr" [data', (Term.sym "_index_"), attr0_1']);
  let stat' : Term := (Term.app ".select" [(Term.app ".unique" [data', (Term.app "*" [group_colnames'])]), (Term.sym "'_index_'"), (Term.app "*" [group_colnames'])]);
  let indices' : Term := (if truth (Term.app "Gt" [(Term.app ".nrow" [stat']), (Term.int (0 : Int))]) then (Term.app "np.split" [attr0_1', (Term.app "getitem" [(Term.app "._index_" [stat']), (Term.slice (some (1 : Int)) none)])]) else (Term.app "list" []));
  let group_aware' : Term := (Term.app "ListComp" [(Term.app "getattr" [(Term.sym "x"), (Term.sym "'group_aware'"), (Term.sym "False")]), (Term.app "in" [(Term.sym "x"), (Term.app ".values" [(Term.sym "colname_function_pairs")]), (Term.app "if" [])])]);
  if truth (Term.app "any" [group_aware']) then
    let groups' : Term := (Term.app "Vector.fast" [(Term.app "range" [(Term.app "len" [indices'])]), (Term.sym "int")]);
    let n' : Term := (Term.app "Vector.fast" [(Term.app "map" [(Term.sym "len"), indices']), (Term.sym "int")]);
    let attr1_2' : Term := (Term.app "np.repeat" [groups', n']);
    let eff1 : Term := (Term.app "setattr" [data', (Term.sym "_group_"), attr1_2']);
    let slices' : Term := (Term.sym "None");
    let eff2 : Term := (Term.app "for" [(Term.app "tuple" [(Term.sym "colname"), (Term.sym "function")]), (Term.app ".items" [(Term.sym "colname_function_pairs")]), (Term.app "block" [(Term.app "if" [(Term.app "getattr" [(Term.sym "function"), (Term.sym "'group_aware'"), (Term.sym "False")]), (Term.app "block" [(Term.app "assign" [(Term.sym "column"), (Term.app "call" [(Term.sym "function"), data'])]), (Term.app "assign" [(Term.sym "default"), (Term.app ".default" [(Term.sym "function")])]), (Term.app "for" [(Term.sym "i"), (Term.app "range" [(Term.app "len" [(Term.sym "column")])]), (Term.app "block" [(Term.app "if" [(Term.app "Is" [(Term.app "getitem" [(Term.sym "column"), (Term.sym "i")]), (Term.sym "None")]), (Term.app "block" [(Term.app "store" [(Term.app "getitem" [(Term.sym "column"), (Term.sym "i")]), (Term.sym "default")])]), (Term.app "block" [])])])]), (Term.app "assert" [(Term.app "Eq" [(Term.app "len" [(Term.sym "column")]), (Term.app ".nrow" [stat'])])]), (Term.app "assign" [(Term.sym "column"), (Term.app "DataFrameColumn.fast" [(Term.sym "column")])]), (Term.app "store" [(Term.app "getitem" [stat', (Term.sym "colname")]), (Term.sym "column")])]), (Term.app "block" [(Term.app "if" [(Term.app "Is" [(Term.sym "slices"), (Term.sym "None")]), (Term.app "block" [(Term.app "assign" [(Term.sym "slices"), (Term.app "ListComp" [(Term.app "._view_rows" [data', (Term.sym "x")]), (Term.app "in" [(Term.sym "x"), indices', (Term.app "if" [])])])])]), (Term.app "block" [])]), (Term.app "store" [(Term.app "getitem" [stat', (Term.sym "colname")]), (Term.app "ListComp" [(Term.app "call" [(Term.sym "function"), (Term.sym "x")]), (Term.app "in" [(Term.sym "x"), (Term.sym "slices"), (Term.app "if" [])])])])])])]), (Term.app "init" [(Term.sym "slices"), slices'])]);
    let column' : Term := (Term.app "value-after-loop" [(Term.sym "column"), eff2]);
    let default' : Term := (Term.app "value-after-loop" [(Term.sym "default"), eff2]);
    let slices' : Term := (Term.app "value-after-loop" [(Term.sym "slices"), eff2]);
    Out.ret [eff0, eff1, eff2] (Term.app ".unselect" [stat', (Term.sym "'_index_'"), (Term.sym "'_group_'")])
  else
    let slices' : Term := (Term.sym "None");
    let eff1 : Term := (Term.app "for" [(Term.app "tuple" [(Term.sym "colname"), (Term.sym "function")]), (Term.app ".items" [(Term.sym "colname_function_pairs")]), (Term.app "block" [(Term.app "if" [(Term.app "getattr" [(Term.sym "function"), (Term.sym "'group_aware'"), (Term.sym "False")]), (Term.app "block" [(Term.app "assign" [(Term.sym "column"), (Term.app "call" [(Term.sym "function"), data'])]), (Term.app "assign" [(Term.sym "default"), (Term.app ".default" [(Term.sym "function")])]), (Term.app "for" [(Term.sym "i"), (Term.app "range" [(Term.app "len" [(Term.sym "column")])]), (Term.app "block" [(Term.app "if" [(Term.app "Is" [(Term.app "getitem" [(Term.sym "column"), (Term.sym "i")]), (Term.sym "None")]), (Term.app "block" [(Term.app "store" [(Term.app "getitem" [(Term.sym "column"), (Term.sym "i")]), (Term.sym "default")])]), (Term.app "block" [])])])]), (Term.app "assert" [(Term.app "Eq" [(Term.app "len" [(Term.sym "column")]), (Term.app ".nrow" [stat'])])]), (Term.app "assign" [(Term.sym "column"), (Term.app "DataFrameColumn.fast" [(Term.sym "column")])]), (Term.app "store" [(Term.app "getitem" [stat', (Term.sym "colname")]), (Term.sym "column")])]), (Term.app "block" [(Term.app "if" [(Term.app "Is" [(Term.sym "slices"), (Term.sym "None")]), (Term.app "block" [(Term.app "assign" [(Term.sym "slices"), (Term.app "ListComp" [(Term.app "._view_rows" [data', (Term.sym "x")]), (Term.app "in" [(Term.sym "x"), indices', (Term.app "if" [])])])])]), (Term.app "block" [])]), (Term.app "store" [(Term.app "getitem" [stat', (Term.sym "colname")]), (Term.app "ListComp" [(Term.app "call" [(Term.sym "function"), (Term.sym "x")]), (Term.app "in" [(Term.sym "x"), (Term.sym "slices"), (Term.app "if" [])])])])])])]), (Term.app "init" [(Term.sym "slices"), slices'])]);
    let column' : Term := (Term.app "value-after-loop" [(Term.sym "column"), eff1]);
    let default' : Term := (Term.app "value-after-loop" [(Term.sym "default"), eff1]);
    let slices' : Term := (Term.app "value-after-loop" [(Term.sym "slices"), eff1]);
    Out.ret [eff0, eff1] (Term.app ".unselect" [stat', (Term.sym "'_index_'"), (Term.sym "'_group_'")])

/-- the decorators of dataiter/data_frame.py: DataFrame.aggregate, outermost first -/
def DataFrame_aggregate_decorators : List String := []

/-- the signature of dataiter/data_frame.py: DataFrame.aggregate: parameters in order, with the source text of their defaults -/
def DataFrame_aggregate_signature : List String := ["self", "**colname_function_pairs"]

/-- the calls of dataiter/data_frame.py: DataFrame.aggregate in the order Python makes them along the source text -/
def DataFrame_aggregate_call_order : List String := ["dict.fromkeys", "self.sort", "np.arange", "data.unique", "data.unique(*group_colnames).select", "np.split", "getattr", "colname_function_pairs.values", "any", "len", "range", "Vector.fast", "map", "Vector.fast", "np.repeat", "colname_function_pairs.items", "getattr", "function", "len", "range", "len", "DataFrameColumn.fast", "data._view_rows", "function", "stat.unselect"]

/-- dataiter/data_frame.py: DataFrame.split (sha256 of the function source: aa9db7543e433bf3) -/
def DataFrame_split (truth : Term → Bool) : Out :=
  let data' : Term := (Term.app ".select" [(Term.sym "self"), (Term.app "*" [(Term.sym "by")])]);
  let attr0_1' : Term := (Term.app "np.arange" [(Term.app ".nrow" [data'])]);
  let eff0 : Term := (Term.app "setattr" [data', (Term.sym "_index_"), attr0_1']);
  let data' : Term := (Term.app ".sort" [data', (Term.app "=**" [(Term.app "dict.fromkeys" [(Term.sym "by"), (Term.int (1 : Int))])])]);
  let attr1_1' : Term := (Term.app "np.arange" [(Term.app ".nrow" [data'])]);
  let eff1 : Term := (Term.app "setattr" [data', (Term.sym "_sorted_index_"), attr1_1']);
  let stat' : Term := (Term.app ".unique" [data', (Term.app "*" [(Term.sym "by")])]);
  Out.ret [eff0, eff1] (Term.app "np.split" [(Term.app "._index_" [data']), (Term.app "getitem" [(Term.app "._sorted_index_" [stat']), (Term.slice (some (1 : Int)) none)])])

/-- the decorators of dataiter/data_frame.py: DataFrame.split, outermost first -/
def DataFrame_split_decorators : List String := []

/-- the signature of dataiter/data_frame.py: DataFrame.split: parameters in order, with the source text of their defaults -/
def DataFrame_split_signature : List String := ["self", "*by"]

/-- the calls of dataiter/data_frame.py: DataFrame.split in the order Python makes them along the source text -/
def DataFrame_split_call_order : List String := ["self.select", "np.arange", "dict.fromkeys", "data.sort", "np.arange", "data.unique", "np.split"]

/-- dataiter/data_frame.py: DataFrame.modify (sha256 of the function source: a907c661dc04b66c) -/
def DataFrame_modify (truth : Term → Bool) : Out :=
  let eff0 : Term := (Term.app "for" [(Term.app "tuple" [(Term.sym "colname"), (Term.sym "column")]), (Term.app ".items" [(Term.sym "self")]), (Term.app "block" [(Term.app "yield" [(Term.app "tuple" [(Term.sym "colname"), (Term.app ".copy" [(Term.sym "column")])])])])]);
  if truth (Term.app "._group_colnames" [(Term.sym "self")]) then
    let slices' : Term := (Term.app ".split" [(Term.sym "self"), (Term.app "*" [(Term.app "._group_colnames" [(Term.sym "self")])])]);
    let restore_indices' : Term := (Term.app "np.argsort" [(Term.app "np.concatenate" [slices'])]);
    let slices' : Term := (Term.app "ListComp" [(Term.app "._view_rows" [(Term.sym "self"), (Term.sym "x")]), (Term.app "in" [(Term.sym "x"), slices', (Term.app "if" [])])]);
    let eff1 : Term := (Term.app "for" [(Term.app "tuple" [(Term.sym "colname"), (Term.sym "function")]), (Term.app ".items" [(Term.sym "colname_value_pairs")]), (Term.app "block" [(Term.app "if" [(Term.app "not" [(Term.app "callable" [(Term.sym "function")])]), (Term.app "block" [(Term.app "raise" [(Term.sym "ValueError")])]), (Term.app "block" [])]), (Term.app "assign" [(Term.sym "column"), (Term.app "ListComp" [(Term.app "DataFrameColumn" [(Term.app "call" [(Term.sym "function"), (Term.sym "x")]), (Term.app "=nrow" [(Term.app ".nrow" [(Term.sym "x")])])]), (Term.app "in" [(Term.sym "x"), slices', (Term.app "if" [])])])]), (Term.app "yield" [(Term.app "tuple" [(Term.sym "colname"), (Term.app "getitem" [(Term.app "np.concatenate" [(Term.sym "column")]), restore_indices'])])])])]);
    let column' : Term := (Term.app "value-after-loop" [(Term.sym "column"), eff1]);
    Out.fall [eff0, eff1]
  else
    let eff1 : Term := (Term.app "for" [(Term.app "tuple" [(Term.sym "colname"), (Term.sym "value")]), (Term.app ".items" [(Term.sym "colname_value_pairs")]), (Term.app "block" [(Term.app "assign" [(Term.sym "value"), (Term.app "ifexp" [(Term.app "callable" [(Term.sym "value")]), (Term.app "call" [(Term.sym "value"), (Term.sym "self")]), (Term.sym "value")])]), (Term.app "yield" [(Term.app "tuple" [(Term.sym "colname"), (Term.app ".copy" [(Term.app "._reconcile_column" [(Term.sym "self"), (Term.sym "value")])])])])])]);
    let value' : Term := (Term.app "value-after-loop" [(Term.sym "value"), eff1]);
    Out.fall [eff0, eff1]

/-- the decorators of dataiter/data_frame.py: DataFrame.modify, outermost first -/
def DataFrame_modify_decorators : List String := ["deco.new_from_generator"]

/-- the signature of dataiter/data_frame.py: DataFrame.modify: parameters in order, with the source text of their defaults -/
def DataFrame_modify_signature : List String := ["self", "**colname_value_pairs"]

/-- the calls of dataiter/data_frame.py: DataFrame.modify in the order Python makes them along the source text -/
def DataFrame_modify_call_order : List String := ["self.items", "column.copy", "self.split", "np.concatenate", "np.argsort", "self._view_rows", "colname_value_pairs.items", "callable", "ValueError", "function", "DataFrameColumn", "np.concatenate", "colname_value_pairs.items", "callable", "value", "self._reconcile_column", "self._reconcile_column(value).copy"]

end DI.Gen

/-
  Generated/CodeC04.lean — REGENERATED on every run by harness/py2lean.py from the current source of
  /repo (symbolic execution of small control-flow functions; see Model/PyCore.lean).  Do not edit.
-/
import Model.PyCore

set_option linter.unusedVariables false

namespace DI.Gen

open DI.Py

/-- dataiter/data_frame.py: DataFrame.count (sha256 of the function source: 12ba5e7c0980dff5) -/
def DataFrame_count (truth : Term → Bool) : Out :=
  Out.ret [] (Term.app ".aggregate" [(Term.app ".group_by" [(Term.app ".copy" [(Term.sym "self")]), (Term.app "*" [(Term.sym "colnames")])]), (Term.app "=n" [(Term.app "dataiter.count" [])])])

/-- the decorators of dataiter/data_frame.py: DataFrame.count, outermost first -/
def DataFrame_count_decorators : List String := []

/-- the signature of dataiter/data_frame.py: DataFrame.count: parameters in order, with the source text of their defaults -/
def DataFrame_count_signature : List String := ["self", "*colnames"]

/-- dataiter/data_frame.py: DataFrame.group_by (sha256 of the function source: 2edbc614a7896e6a) -/
def DataFrame_group_by (truth : Term → Bool) : Out :=
  let attr0_1' : Term := (Term.app "tuple()" [(Term.sym "colnames")]);
  let eff0 : Term := (Term.app "setattr" [(Term.sym "self"), (Term.sym "_group_colnames"), attr0_1']);
  Out.ret [eff0] (Term.sym "self")

/-- the decorators of dataiter/data_frame.py: DataFrame.group_by, outermost first -/
def DataFrame_group_by_decorators : List String := []

/-- the signature of dataiter/data_frame.py: DataFrame.group_by: parameters in order, with the source text of their defaults -/
def DataFrame_group_by_signature : List String := ["self", "*colnames"]

end DI.Gen

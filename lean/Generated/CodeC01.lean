/-
  Generated/CodeC01.lean — REGENERATED on every run by harness/py2lean.py from the current source of
  /repo (symbolic execution of small control-flow functions; see Model/PyCore.lean).  Do not edit.
-/
import Model.PyCore

set_option linter.unusedVariables false

namespace DI.Gen

open DI.Py

/-- dataiter/data_frame.py: DataFrameColumn.__new__ (sha256 of the function source: dd0941ce41b79f37) -/
def DataFrameColumn_new (truth : Term → Bool) (nrow_is_None : Bool) (nrow : Int) (column_length : Int) : Out :=
  let object' : Term := (Term.app "util.sequencify" [(Term.sym "object")]);
  let column' : Term := (Term.app "Vector" [object', (Term.sym "dtype")]);
  if ((!nrow_is_None) && decide (nrow ≠ column_length)) then
    if (decide (column_length ≠ (1 : Int)) || decide (nrow < (1 : Int))) then
      Out.raise [] "ValueError"
    else
      let column' : Term := (Term.app "getitem" [column', (Term.app "np.zeros" [(Term.int nrow), (Term.sym "int")])]);
      Out.ret [] (Term.app ".view" [column', (Term.sym "cls")])
  else
    Out.ret [] (Term.app ".view" [column', (Term.sym "cls")])

/-- the decorators of dataiter/data_frame.py: DataFrameColumn.__new__, outermost first -/
def DataFrameColumn_new_decorators : List String := []

/-- the signature of dataiter/data_frame.py: DataFrameColumn.__new__: parameters in order, with the source text of their defaults -/
def DataFrameColumn_new_signature : List String := ["cls", "object", "dtype=None", "nrow=None"]

/-- the calls of dataiter/data_frame.py: DataFrameColumn.__new__ in the order Python makes them along the source text -/
def DataFrameColumn_new_call_order : List String := ["util.sequencify", "Vector", "ValueError", "np.zeros", "column.view"]

/-- dataiter/data_frame.py: DataFrame._reconcile_column (sha256 of the function source: 8374da515148df48) -/
def DataFrame_reconcile_column (truth : Term → Bool) (column_nrow : Int) (self_nrow : Int) : Out :=
  if truth (Term.app "isinstance" [(Term.sym "column"), (Term.sym "DataFrameColumn")]) then
    if decide (column_nrow = self_nrow) then
      Out.ret [] (Term.sym "column")
    else
      let nrow' : Term := (if truth (Term.sym "self") then (Term.int self_nrow) else (Term.sym "None"));
      Out.ret [] (Term.app "DataFrameColumn" [(Term.sym "column"), (Term.app "=nrow" [nrow'])])
  else
    let nrow' : Term := (if truth (Term.sym "self") then (Term.int self_nrow) else (Term.sym "None"));
    Out.ret [] (Term.app "DataFrameColumn" [(Term.sym "column"), (Term.app "=nrow" [nrow'])])

/-- the decorators of dataiter/data_frame.py: DataFrame._reconcile_column, outermost first -/
def DataFrame_reconcile_column_decorators : List String := []

/-- the signature of dataiter/data_frame.py: DataFrame._reconcile_column: parameters in order, with the source text of their defaults -/
def DataFrame_reconcile_column_signature : List String := ["self", "column"]

/-- the calls of dataiter/data_frame.py: DataFrame._reconcile_column in the order Python makes them along the source text -/
def DataFrame_reconcile_column_call_order : List String := ["isinstance", "DataFrameColumn"]

/-- dataiter/data_frame.py: DataFrame._check_dimensions (sha256 of the function source: df97a94de787c0a0) -/
def DataFrame_check_dimensions (truth : Term → Bool) (len_set_nrows : Int) : Out :=
  if (!truth (Term.sym "self")) then
    Out.ret [] (Term.sym "None")
  else
    let nrows' : Term := (Term.app "ListComp" [(Term.app ".nrow" [(Term.sym "x")]), (Term.app "in" [(Term.sym "x"), (Term.app ".columns" [(Term.sym "self")]), (Term.app "if" [])])]);
    if decide (len_set_nrows = (1 : Int)) then
      Out.ret [] (Term.sym "None")
    else
      Out.raise [] "ValueError"

/-- the decorators of dataiter/data_frame.py: DataFrame._check_dimensions, outermost first -/
def DataFrame_check_dimensions_decorators : List String := []

/-- the signature of dataiter/data_frame.py: DataFrame._check_dimensions: parameters in order, with the source text of their defaults -/
def DataFrame_check_dimensions_signature : List String := ["self"]

/-- the calls of dataiter/data_frame.py: DataFrame._check_dimensions in the order Python makes them along the source text -/
def DataFrame_check_dimensions_call_order : List String := ["set", "len", "ValueError"]

/-- dataiter/data_frame.py: DataFrame.__setitem__ (sha256 of the function source: 9efe7aa994c46e8b) -/
def DataFrame_setitem (truth : Term → Bool) : Out :=
  let value' : Term := (Term.app "._reconcile_column" [(Term.sym "self"), (Term.sym "value")]);
  if ((!truth (Term.app ".__hasattr" [(Term.sym "self"), (Term.sym "key")])) && truth (Term.app ".isidentifier" [(Term.sym "key")])) then
    let eff0 : Term := (Term.app "super().__setattr__" [(Term.sym "key"), (Term.app ".COLUMN_PLACEHOLDER" [(Term.sym "self")])]);
    Out.ret [eff0] (Term.app "super().__setitem__" [(Term.sym "key"), value'])
  else
    Out.ret [] (Term.app "super().__setitem__" [(Term.sym "key"), value'])

/-- the decorators of dataiter/data_frame.py: DataFrame.__setitem__, outermost first -/
def DataFrame_setitem_decorators : List String := []

/-- the signature of dataiter/data_frame.py: DataFrame.__setitem__: parameters in order, with the source text of their defaults -/
def DataFrame_setitem_signature : List String := ["self", "key", "value"]

/-- the calls of dataiter/data_frame.py: DataFrame.__setitem__ in the order Python makes them along the source text -/
def DataFrame_setitem_call_order : List String := ["self._reconcile_column", "self.__hasattr", "key.isidentifier", "super", "super().__setattr__", "super", "super().__setitem__"]

/-- dataiter/vector.py: Vector._check_dimensions (sha256 of the function source: edef83c32490bd45) -/
def Vector_check_dimensions (truth : Term → Bool) (self_ndim : Int) : Out :=
  if decide (self_ndim = (1 : Int)) then
    Out.ret [] (Term.sym "None")
  else
    Out.raise [] "ValueError"

/-- the decorators of dataiter/vector.py: Vector._check_dimensions, outermost first -/
def Vector_check_dimensions_decorators : List String := []

/-- the signature of dataiter/vector.py: Vector._check_dimensions: parameters in order, with the source text of their defaults -/
def Vector_check_dimensions_signature : List String := ["self"]

/-- the calls of dataiter/vector.py: Vector._check_dimensions in the order Python makes them along the source text -/
def Vector_check_dimensions_call_order : List String := ["ValueError"]

/-- dataiter/util.py: length (sha256 of the function source: f2c4ff085c8cc78a) -/
def util_length (truth : Term → Bool) (len_value : Int) : Out :=
  Out.ret [] (Term.int (if truth (Term.app "is_scalar" [(Term.sym "value")]) then (1 : Int) else len_value))

/-- the decorators of dataiter/util.py: length, outermost first -/
def util_length_decorators : List String := []

/-- the signature of dataiter/util.py: length: parameters in order, with the source text of their defaults -/
def util_length_signature : List String := ["value"]

/-- the calls of dataiter/util.py: length in the order Python makes them along the source text -/
def util_length_call_order : List String := ["is_scalar", "len"]

/-- dataiter/vector.py: Vector.length (sha256 of the function source: f9a8d1600615e72a) -/
def Vector_length (truth : Term → Bool) : Out :=
  let eff0 : Term := (Term.app "._check_dimensions" [(Term.sym "self")]);
  Out.ret [eff0] (Term.app ".size" [(Term.sym "self")])

/-- the decorators of dataiter/vector.py: Vector.length, outermost first -/
def Vector_length_decorators : List String := ["property"]

/-- the signature of dataiter/vector.py: Vector.length: parameters in order, with the source text of their defaults -/
def Vector_length_signature : List String := ["self"]

/-- the calls of dataiter/vector.py: Vector.length in the order Python makes them along the source text -/
def Vector_length_call_order : List String := ["self._check_dimensions"]

/-- dataiter/data_frame.py: DataFrame.nrow (sha256 of the function source: be27b9810d333211) -/
def DataFrame_nrow (truth : Term → Bool) : Out :=
  if (!truth (Term.sym "self")) then
    Out.ret [] (Term.int (0 : Int))
  else
    let eff0 : Term := (Term.app "._check_dimensions" [(Term.sym "self")]);
    Out.ret [eff0] (Term.app ".nrow" [(Term.app "getitem" [(Term.sym "self"), (Term.app "next" [(Term.app "iter" [(Term.sym "self")])])])])

/-- the decorators of dataiter/data_frame.py: DataFrame.nrow, outermost first -/
def DataFrame_nrow_decorators : List String := ["property"]

/-- the signature of dataiter/data_frame.py: DataFrame.nrow: parameters in order, with the source text of their defaults -/
def DataFrame_nrow_signature : List String := ["self"]

/-- the calls of dataiter/data_frame.py: DataFrame.nrow in the order Python makes them along the source text -/
def DataFrame_nrow_call_order : List String := ["self._check_dimensions", "iter", "next"]

/-- dataiter/data_frame.py: DataFrame.__delitem__ (sha256 of the function source: 4e1dbfa272dd4be5) -/
def DataFrame_delitem (truth : Term → Bool) : Out :=
  let value' : Term := (Term.app "super().__delitem__" [(Term.sym "key")]);
  if truth (Term.app "hasattr" [(Term.sym "self"), (Term.sym "key")]) then
    if (!truth (Term.app ".__is_builtin_attr" [(Term.sym "self"), (Term.sym "key")])) then
      let eff0 : Term := (Term.app "super().__delattr__" [(Term.sym "key")]);
      Out.ret [eff0] value'
    else
      Out.ret [] value'
  else
    Out.ret [] value'

/-- the decorators of dataiter/data_frame.py: DataFrame.__delitem__, outermost first -/
def DataFrame_delitem_decorators : List String := []

/-- the signature of dataiter/data_frame.py: DataFrame.__delitem__: parameters in order, with the source text of their defaults -/
def DataFrame_delitem_signature : List String := ["self", "key"]

/-- the calls of dataiter/data_frame.py: DataFrame.__delitem__ in the order Python makes them along the source text -/
def DataFrame_delitem_call_order : List String := ["super", "super().__delitem__", "hasattr", "self.__is_builtin_attr", "super", "super().__delattr__"]

/-- dataiter/data_frame.py: DataFrame.pop (sha256 of the function source: 1e9bd023a4d66dbe) -/
def DataFrame_pop (truth : Term → Bool) : Out :=
  let value' : Term := (Term.app "super().pop" [(Term.sym "key"), (Term.app "*" [(Term.sym "args")]), (Term.app "=**" [(Term.sym "kwargs")])]);
  if truth (Term.app "hasattr" [(Term.sym "self"), (Term.sym "key")]) then
    if (!truth (Term.app ".__is_builtin_attr" [(Term.sym "self"), (Term.sym "key")])) then
      let eff0 : Term := (Term.app "super().__delattr__" [(Term.sym "key")]);
      Out.ret [eff0] value'
    else
      Out.ret [] value'
  else
    Out.ret [] value'

/-- the decorators of dataiter/data_frame.py: DataFrame.pop, outermost first -/
def DataFrame_pop_decorators : List String := []

/-- the signature of dataiter/data_frame.py: DataFrame.pop: parameters in order, with the source text of their defaults -/
def DataFrame_pop_signature : List String := ["self", "key", "*args", "**kwargs"]

/-- the calls of dataiter/data_frame.py: DataFrame.pop in the order Python makes them along the source text -/
def DataFrame_pop_call_order : List String := ["super", "super().pop", "hasattr", "self.__is_builtin_attr", "super", "super().__delattr__"]

/-- dataiter/data_frame.py: DataFrame.__delattr__ (sha256 of the function source: d451320c51b8280e) -/
def DataFrame_delattr (truth : Term → Bool) : Out :=
  if truth (Term.app "In" [(Term.sym "name"), (Term.sym "self")]) then
    Out.ret [] (Term.app ".__delitem__" [(Term.sym "self"), (Term.sym "name")])
  else
    Out.ret [] (Term.app "super().__delattr__" [(Term.sym "name")])

/-- the decorators of dataiter/data_frame.py: DataFrame.__delattr__, outermost first -/
def DataFrame_delattr_decorators : List String := []

/-- the signature of dataiter/data_frame.py: DataFrame.__delattr__: parameters in order, with the source text of their defaults -/
def DataFrame_delattr_signature : List String := ["self", "name"]

/-- the calls of dataiter/data_frame.py: DataFrame.__delattr__ in the order Python makes them along the source text -/
def DataFrame_delattr_call_order : List String := ["self.__delitem__", "super", "super().__delattr__"]

/-- dataiter/data_frame.py: DataFrame.__getattr__ (sha256 of the function source: 018a5f2266811708) -/
def DataFrame_getattr (truth : Term → Bool) : Out :=
  if truth (Term.app "In" [(Term.sym "name"), (Term.sym "self")]) then
    Out.ret [] (Term.app ".__getitem__" [(Term.sym "self"), (Term.sym "name")])
  else
    Out.raise [] "AttributeError"

/-- the decorators of dataiter/data_frame.py: DataFrame.__getattr__, outermost first -/
def DataFrame_getattr_decorators : List String := []

/-- the signature of dataiter/data_frame.py: DataFrame.__getattr__: parameters in order, with the source text of their defaults -/
def DataFrame_getattr_signature : List String := ["self", "name"]

/-- the calls of dataiter/data_frame.py: DataFrame.__getattr__ in the order Python makes them along the source text -/
def DataFrame_getattr_call_order : List String := ["self.__getitem__", "AttributeError"]

/-- dataiter/data_frame.py: DataFrame.__getattribute__ (sha256 of the function source: 3d4c793237b501e6) -/
def DataFrame_getattribute (truth : Term → Bool) : Out :=
  let value' : Term := (Term.app "super().__getattribute__" [(Term.sym "name")]);
  if truth (Term.app "Eq" [(Term.sym "name"), (Term.sym "'COLUMN_PLACEHOLDER'")]) then
    Out.ret [] value'
  else
    if (truth (Term.app "Is" [value', (Term.app ".COLUMN_PLACEHOLDER" [(Term.sym "self")])]) && truth (Term.app "In" [(Term.sym "name"), (Term.sym "self")])) then
      Out.ret [] (Term.app "getitem" [(Term.sym "self"), (Term.sym "name")])
    else
      Out.ret [] value'

/-- the decorators of dataiter/data_frame.py: DataFrame.__getattribute__, outermost first -/
def DataFrame_getattribute_decorators : List String := []

/-- the signature of dataiter/data_frame.py: DataFrame.__getattribute__: parameters in order, with the source text of their defaults -/
def DataFrame_getattribute_signature : List String := ["self", "name"]

/-- the calls of dataiter/data_frame.py: DataFrame.__getattribute__ in the order Python makes them along the source text -/
def DataFrame_getattribute_call_order : List String := ["super", "super().__getattribute__"]

/-- dataiter/data_frame.py: DataFrameColumn.__init__ (sha256 of the function source: 2ba2dd4daa3844a8) -/
def DataFrameColumn_init (truth : Term → Bool) : Out :=
  let eff0 : Term := (Term.app "super().__init__" [(Term.sym "object"), (Term.sym "dtype")]);
  Out.fall [eff0]

/-- the decorators of dataiter/data_frame.py: DataFrameColumn.__init__, outermost first -/
def DataFrameColumn_init_decorators : List String := []

/-- the signature of dataiter/data_frame.py: DataFrameColumn.__init__: parameters in order, with the source text of their defaults -/
def DataFrameColumn_init_signature : List String := ["self", "object", "dtype=None", "nrow=None"]

/-- the calls of dataiter/data_frame.py: DataFrameColumn.__init__ in the order Python makes them along the source text -/
def DataFrameColumn_init_call_order : List String := ["super", "super().__init__"]

/-- dataiter/data_frame.py: DataFrameColumn.nrow (sha256 of the function source: ee722a29ea7d74f6) -/
def DataFrameColumn_nrow (truth : Term → Bool) : Out :=
  Out.ret [] (Term.app ".length" [(Term.sym "self")])

/-- the decorators of dataiter/data_frame.py: DataFrameColumn.nrow, outermost first -/
def DataFrameColumn_nrow_decorators : List String := ["property"]

/-- the signature of dataiter/data_frame.py: DataFrameColumn.nrow: parameters in order, with the source text of their defaults -/
def DataFrameColumn_nrow_signature : List String := ["self"]

/-- the calls of dataiter/data_frame.py: DataFrameColumn.nrow in the order Python makes them along the source text -/
def DataFrameColumn_nrow_call_order : List String := []

/-- dataiter/data_frame.py: DataFrame.__init__ (sha256 of the function source: f24eaf49f8b8964d) -/
def DataFrame_init (truth : Term → Bool) : Out :=
  let eff0 : Term := (Term.app "super().__init__" [(Term.app "*" [(Term.sym "args")]), (Term.app "=**" [(Term.sym "kwargs")])]);
  let nrow' : Term := (Term.app "max" [(Term.app "map" [(Term.sym "util.length"), (Term.app ".values" [(Term.sym "self")])]), (Term.app "=default" [(Term.int (0 : Int))])]);
  let eff1 : Term := (Term.app "for" [(Term.app "tuple" [(Term.sym "key"), (Term.sym "value")]), (Term.app ".items" [(Term.sym "self")]), (Term.app "block" [(Term.app "if" [(Term.app "And" [(Term.app "isinstance" [(Term.sym "value"), (Term.sym "DataFrameColumn")]), (Term.app "Eq" [(Term.app ".nrow" [(Term.sym "value")]), nrow'])]), (Term.app "block" [(Term.sym "continue")]), (Term.app "block" [])]), (Term.app "assign" [(Term.sym "column"), (Term.app "DataFrameColumn" [(Term.sym "value"), (Term.app "=nrow" [nrow'])])]), (Term.app "super().__setitem__" [(Term.sym "key"), (Term.sym "column")])])]);
  let column' : Term := (Term.app "value-after-loop" [(Term.sym "column"), eff1]);
  let eff2 : Term := (Term.app "for" [(Term.sym "key"), (Term.sym "self"), (Term.app "block" [(Term.app "if" [(Term.app "And" [(Term.app "not" [(Term.app ".__hasattr" [(Term.sym "self"), (Term.sym "key")])]), (Term.app ".isidentifier" [(Term.sym "key")])]), (Term.app "block" [(Term.app "super().__setattr__" [(Term.sym "key"), (Term.app ".COLUMN_PLACEHOLDER" [(Term.sym "self")])])]), (Term.app "block" [])])])]);
  let eff3 : Term := (Term.app "._check_dimensions" [(Term.sym "self")]);
  let attr4_1' : Term := (Term.app "tuple" []);
  let eff4 : Term := (Term.app "setattr" [(Term.sym "self"), (Term.sym "_group_colnames"), attr4_1']);
  Out.fall [eff0, eff1, eff2, eff3, eff4]

/-- the decorators of dataiter/data_frame.py: DataFrame.__init__, outermost first -/
def DataFrame_init_decorators : List String := []

/-- the signature of dataiter/data_frame.py: DataFrame.__init__: parameters in order, with the source text of their defaults -/
def DataFrame_init_signature : List String := ["self", "*args", "**kwargs"]

/-- the calls of dataiter/data_frame.py: DataFrame.__init__ in the order Python makes them along the source text -/
def DataFrame_init_call_order : List String := ["super", "super().__init__", "self.values", "map", "max", "self.items", "isinstance", "DataFrameColumn", "super", "super().__setitem__", "self.__hasattr", "key.isidentifier", "super", "super().__setattr__", "self._check_dimensions"]

/-- dataiter/data_frame.py: DataFrame.__setattr__ (sha256 of the function source: 0b95468b7d5a8624) -/
def DataFrame_setattr (truth : Term → Bool) : Out :=
  if truth (Term.app "In" [(Term.sym "name"), (Term.app ".ATTRIBUTES" [(Term.sym "self")])]) then
    Out.ret [] (Term.app "super().__setattr__" [(Term.sym "name"), (Term.sym "value")])
  else
    Out.ret [] (Term.app ".__setitem__" [(Term.sym "self"), (Term.sym "name"), (Term.sym "value")])

/-- the decorators of dataiter/data_frame.py: DataFrame.__setattr__, outermost first -/
def DataFrame_setattr_decorators : List String := []

/-- the signature of dataiter/data_frame.py: DataFrame.__setattr__: parameters in order, with the source text of their defaults -/
def DataFrame_setattr_signature : List String := ["self", "name", "value"]

/-- the calls of dataiter/data_frame.py: DataFrame.__setattr__ in the order Python makes them along the source text -/
def DataFrame_setattr_call_order : List String := ["super", "super().__setattr__", "self.__setitem__"]

/-- dataiter/data_frame.py: DataFrame.__hasattr (sha256 of the function source: 8d9b091cb61c0c7a) -/
def DataFrame_hasattr (truth : Term → Bool) : Out :=
  Out.ret [] (Term.app "And" [(Term.app "hasattr" [(Term.sym "self"), (Term.sym "name")]), (Term.app "not" [(Term.app "isinstance" [(Term.app "getattr" [(Term.sym "self"), (Term.sym "name")]), (Term.sym "DataFrameColumn")])])])

/-- the decorators of dataiter/data_frame.py: DataFrame.__hasattr, outermost first -/
def DataFrame_hasattr_decorators : List String := []

/-- the signature of dataiter/data_frame.py: DataFrame.__hasattr: parameters in order, with the source text of their defaults -/
def DataFrame_hasattr_signature : List String := ["self", "name"]

/-- the calls of dataiter/data_frame.py: DataFrame.__hasattr in the order Python makes them along the source text -/
def DataFrame_hasattr_call_order : List String := ["hasattr", "getattr", "isinstance"]

/-- dataiter/data_frame.py: DataFrame.__is_builtin_attr (sha256 of the function source: 0956a28a6b64d504) -/
def DataFrame_is_builtin_attr (truth : Term → Bool) : Out :=
  Out.ret [] (Term.app "In" [(Term.sym "name"), (Term.app ".__list_builtin_attrs" [(Term.sym "cls")])])

/-- the decorators of dataiter/data_frame.py: DataFrame.__is_builtin_attr, outermost first -/
def DataFrame_is_builtin_attr_decorators : List String := ["classmethod"]

/-- the signature of dataiter/data_frame.py: DataFrame.__is_builtin_attr: parameters in order, with the source text of their defaults -/
def DataFrame_is_builtin_attr_signature : List String := ["cls", "name"]

/-- the calls of dataiter/data_frame.py: DataFrame.__is_builtin_attr in the order Python makes them along the source text -/
def DataFrame_is_builtin_attr_call_order : List String := ["cls.__list_builtin_attrs"]

/-- dataiter/data_frame.py: DataFrame.__list_builtin_attrs (sha256 of the function source: c8a9c32ee379c9d8) -/
def DataFrame_list_builtin_attrs (truth : Term → Bool) : Out :=
  Out.ret [] (Term.app "set()" [(Term.app "dir" [(Term.app "cls" [])])])

/-- the decorators of dataiter/data_frame.py: DataFrame.__list_builtin_attrs, outermost first -/
def DataFrame_list_builtin_attrs_decorators : List String := ["classmethod", "functools.lru_cache(None)"]

/-- the signature of dataiter/data_frame.py: DataFrame.__list_builtin_attrs: parameters in order, with the source text of their defaults -/
def DataFrame_list_builtin_attrs_signature : List String := ["cls"]

/-- the calls of dataiter/data_frame.py: DataFrame.__list_builtin_attrs in the order Python makes them along the source text -/
def DataFrame_list_builtin_attrs_call_order : List String := ["cls", "dir", "set"]

/-- dataiter/data_frame.py: DataFrame.clear (sha256 of the function source: fdd7fe909ce807ce) -/
def DataFrame_clear (truth : Term → Bool) : Out :=
  Out.ret [] (Term.app "._new" [(Term.sym "self")])

/-- the decorators of dataiter/data_frame.py: DataFrame.clear, outermost first -/
def DataFrame_clear_decorators : List String := []

/-- the signature of dataiter/data_frame.py: DataFrame.clear: parameters in order, with the source text of their defaults -/
def DataFrame_clear_signature : List String := ["self"]

/-- the calls of dataiter/data_frame.py: DataFrame.clear in the order Python makes them along the source text -/
def DataFrame_clear_call_order : List String := ["self._new"]

/-- dataiter/data_frame.py: DataFrame.colnames#0 (sha256 of the function source: 7124e336f7b176cf) -/
def DataFrame_colnames_get (truth : Term → Bool) : Out :=
  Out.ret [] (Term.app "list()" [(Term.sym "self")])

/-- the decorators of dataiter/data_frame.py: DataFrame.colnames#0, outermost first -/
def DataFrame_colnames_get_decorators : List String := ["property"]

/-- the signature of dataiter/data_frame.py: DataFrame.colnames#0: parameters in order, with the source text of their defaults -/
def DataFrame_colnames_get_signature : List String := ["self"]

/-- the calls of dataiter/data_frame.py: DataFrame.colnames#0 in the order Python makes them along the source text -/
def DataFrame_colnames_get_call_order : List String := ["list"]

/-- dataiter/data_frame.py: DataFrame.colnames#1 (sha256 of the function source: c61866bf250008c1) -/
def DataFrame_colnames_set (truth : Term → Bool) : Out :=
  let pairs' : Term := (Term.app "list()" [(Term.app "zip" [(Term.app "list()" [(Term.app ".keys" [(Term.sym "self")])]), (Term.sym "colnames")])]);
  let columns' : Term := (Term.app "ListComp" [(Term.app ".pop" [(Term.sym "self"), (Term.sym "fm")]), (Term.app "in" [(Term.app "tuple" [(Term.sym "fm"), (Term.sym "to")]), pairs', (Term.app "if" [])])]);
  let eff0 : Term := (Term.app "for" [(Term.app "tuple" [(Term.app "tuple" [(Term.sym "fm"), (Term.sym "to")]), (Term.sym "column")]), (Term.app "zip" [pairs', columns']), (Term.app "block" [(Term.app "store" [(Term.app "getitem" [(Term.sym "self"), (Term.sym "to")]), (Term.sym "column")])])]);
  Out.fall [eff0]

/-- the decorators of dataiter/data_frame.py: DataFrame.colnames#1, outermost first -/
def DataFrame_colnames_set_decorators : List String := ["colnames.setter"]

/-- the signature of dataiter/data_frame.py: DataFrame.colnames#1: parameters in order, with the source text of their defaults -/
def DataFrame_colnames_set_signature : List String := ["self", "colnames"]

/-- the calls of dataiter/data_frame.py: DataFrame.colnames#1 in the order Python makes them along the source text -/
def DataFrame_colnames_set_call_order : List String := ["self.keys", "list", "zip", "list", "self.pop", "zip"]

/-- dataiter/data_frame.py: DataFrame.columns (sha256 of the function source: 864338c4d743c83d) -/
def DataFrame_columns (truth : Term → Bool) : Out :=
  Out.ret [] (Term.app "list()" [(Term.app ".values" [(Term.sym "self")])])

/-- the decorators of dataiter/data_frame.py: DataFrame.columns, outermost first -/
def DataFrame_columns_decorators : List String := ["property"]

/-- the signature of dataiter/data_frame.py: DataFrame.columns: parameters in order, with the source text of their defaults -/
def DataFrame_columns_signature : List String := ["self"]

/-- the calls of dataiter/data_frame.py: DataFrame.columns in the order Python makes them along the source text -/
def DataFrame_columns_call_order : List String := ["self.values", "list"]

/-- dataiter/data_frame.py: DataFrame.ncol (sha256 of the function source: 3d1797c2db67d47f) -/
def DataFrame_ncol (truth : Term → Bool) : Out :=
  let eff0 : Term := (Term.app "._check_dimensions" [(Term.sym "self")]);
  Out.ret [eff0] (Term.app "len" [(Term.sym "self")])

/-- the decorators of dataiter/data_frame.py: DataFrame.ncol, outermost first -/
def DataFrame_ncol_decorators : List String := ["property"]

/-- the signature of dataiter/data_frame.py: DataFrame.ncol: parameters in order, with the source text of their defaults -/
def DataFrame_ncol_signature : List String := ["self"]

/-- the calls of dataiter/data_frame.py: DataFrame.ncol in the order Python makes them along the source text -/
def DataFrame_ncol_call_order : List String := ["self._check_dimensions", "len"]

/-- dataiter/data_frame.py: DataFrame._new (sha256 of the function source: 75baeeb431b2fbd7) -/
def DataFrame_new (truth : Term → Bool) : Out :=
  Out.ret [] (Term.app "cls" [(Term.app "*" [(Term.sym "args")]), (Term.app "=**" [(Term.sym "kwargs")])])

/-- the decorators of dataiter/data_frame.py: DataFrame._new, outermost first -/
def DataFrame_new_decorators : List String := ["classmethod"]

/-- the signature of dataiter/data_frame.py: DataFrame._new: parameters in order, with the source text of their defaults -/
def DataFrame_new_signature : List String := ["cls", "*args", "**kwargs"]

/-- the calls of dataiter/data_frame.py: DataFrame._new in the order Python makes them along the source text -/
def DataFrame_new_call_order : List String := ["cls"]

/-- dataiter/data_frame.py: DataFrame.popitem (sha256 of the function source: 59179c22176a7aa9) -/
def DataFrame_popitem (truth : Term → Bool) : Out :=
  let tup0_1' : Term := (Term.app "super().popitem" []);
  let key' : Term := (Term.app "item0" [tup0_1']);
  let value' : Term := (Term.app "item1" [tup0_1']);
  if truth (Term.app "hasattr" [(Term.sym "self"), key']) then
    if (!truth (Term.app ".__is_builtin_attr" [(Term.sym "self"), key'])) then
      let eff0 : Term := (Term.app "super().__delattr__" [key']);
      Out.ret [eff0] (Term.app "tuple" [key', value'])
    else
      Out.ret [] (Term.app "tuple" [key', value'])
  else
    Out.ret [] (Term.app "tuple" [key', value'])

/-- the decorators of dataiter/data_frame.py: DataFrame.popitem, outermost first -/
def DataFrame_popitem_decorators : List String := []

/-- the signature of dataiter/data_frame.py: DataFrame.popitem: parameters in order, with the source text of their defaults -/
def DataFrame_popitem_signature : List String := ["self"]

/-- the calls of dataiter/data_frame.py: DataFrame.popitem in the order Python makes them along the source text -/
def DataFrame_popitem_call_order : List String := ["super", "super().popitem", "hasattr", "self.__is_builtin_attr", "super", "super().__delattr__"]

/-- dataiter/data_frame.py: DataFrame.__copy__ (sha256 of the function source: 8b07b822c8bcc720) -/
def DataFrame_copy (truth : Term → Bool) : Out :=
  Out.ret [] (Term.app ".__class__" [(Term.sym "self"), (Term.sym "self")])

/-- the decorators of dataiter/data_frame.py: DataFrame.__copy__, outermost first -/
def DataFrame_copy_decorators : List String := []

/-- the signature of dataiter/data_frame.py: DataFrame.__copy__: parameters in order, with the source text of their defaults -/
def DataFrame_copy_signature : List String := ["self"]

/-- the calls of dataiter/data_frame.py: DataFrame.__copy__ in the order Python makes them along the source text -/
def DataFrame_copy_call_order : List String := ["self.__class__"]

/-- dataiter/data_frame.py: DataFrame.__deepcopy__ (sha256 of the function source: 931acca830e63f6b) -/
def DataFrame_deepcopy (truth : Term → Bool) : Out :=
  Out.ret [] (Term.app ".__class__" [(Term.sym "self"), (Term.app "DictComp" [(Term.app "pair" [(Term.sym "k"), (Term.app ".copy" [(Term.sym "v")])]), (Term.app "in" [(Term.app "tuple" [(Term.sym "k"), (Term.sym "v")]), (Term.app ".items" [(Term.sym "self")]), (Term.app "if" [])])])])

/-- the decorators of dataiter/data_frame.py: DataFrame.__deepcopy__, outermost first -/
def DataFrame_deepcopy_decorators : List String := []

/-- the signature of dataiter/data_frame.py: DataFrame.__deepcopy__: parameters in order, with the source text of their defaults -/
def DataFrame_deepcopy_signature : List String := ["self", "memo=None"]

/-- the calls of dataiter/data_frame.py: DataFrame.__deepcopy__ in the order Python makes them along the source text -/
def DataFrame_deepcopy_call_order : List String := ["v.copy", "self.items", "self.__class__"]

/-- dataiter/data_frame.py: DataFrame.copy (sha256 of the function source: 137155dde933b202) -/
def DataFrame_copy2 (truth : Term → Bool) : Out :=
  Out.ret [] (Term.app ".__copy__" [(Term.sym "self")])

/-- the decorators of dataiter/data_frame.py: DataFrame.copy, outermost first -/
def DataFrame_copy2_decorators : List String := []

/-- the signature of dataiter/data_frame.py: DataFrame.copy: parameters in order, with the source text of their defaults -/
def DataFrame_copy2_signature : List String := ["self"]

/-- the calls of dataiter/data_frame.py: DataFrame.copy in the order Python makes them along the source text -/
def DataFrame_copy2_call_order : List String := ["self.__copy__"]

/-- dataiter/data_frame.py: DataFrame.deepcopy (sha256 of the function source: fcbd6f8670eb6bd1) -/
def DataFrame_deepcopy2 (truth : Term → Bool) : Out :=
  Out.ret [] (Term.app ".__deepcopy__" [(Term.sym "self")])

/-- the decorators of dataiter/data_frame.py: DataFrame.deepcopy, outermost first -/
def DataFrame_deepcopy2_decorators : List String := []

/-- the signature of dataiter/data_frame.py: DataFrame.deepcopy: parameters in order, with the source text of their defaults -/
def DataFrame_deepcopy2_signature : List String := ["self"]

/-- the calls of dataiter/data_frame.py: DataFrame.deepcopy in the order Python makes them along the source text -/
def DataFrame_deepcopy2_call_order : List String := ["self.__deepcopy__"]

/-- dataiter/util.py: is_scalar (sha256 of the function source: 9e68b4eb163c2230) -/
def util_is_scalar (truth : Term → Bool) : Out :=
  Out.ret [] (Term.app "Or" [(Term.app "np.isscalar" [(Term.sym "value")]), (Term.app "Is" [(Term.sym "value"), (Term.sym "None")]), (Term.app "isinstance" [(Term.sym "value"), (Term.app "tuple" [(Term.sym "bytes"), (Term.sym "bool"), (Term.sym "float"), (Term.sym "int"), (Term.sym "str"), (Term.sym "datetime.date"), (Term.sym "datetime.datetime"), (Term.sym "datetime.timedelta")])])])

/-- the decorators of dataiter/util.py: is_scalar, outermost first -/
def util_is_scalar_decorators : List String := []

/-- the signature of dataiter/util.py: is_scalar: parameters in order, with the source text of their defaults -/
def util_is_scalar_signature : List String := ["value"]

/-- the calls of dataiter/util.py: is_scalar in the order Python makes them along the source text -/
def util_is_scalar_call_order : List String := ["np.isscalar", "isinstance"]

/-- dataiter/util.py: sequencify (sha256 of the function source: e69a8e05b877f980) -/
def util_sequencify (truth : Term → Bool) : Out :=
  if truth (Term.app "isinstance" [(Term.sym "value"), (Term.app "tuple" [(Term.sym "np.ndarray"), (Term.sym "list"), (Term.sym "tuple")])]) then
    Out.ret [] (Term.sym "value")
  else
    if truth (Term.app "is_scalar" [(Term.sym "value")]) then
      Out.ret [] (Term.app "list" [(Term.sym "value")])
    else
      if truth (Term.app "hasattr" [(Term.sym "value"), (Term.sym "'__iter__'")]) then
        Out.ret [] (Term.app "list()" [(Term.sym "value")])
      else
        Out.raise [] "ValueError"

/-- the decorators of dataiter/util.py: sequencify, outermost first -/
def util_sequencify_decorators : List String := []

/-- the signature of dataiter/util.py: sequencify: parameters in order, with the source text of their defaults -/
def util_sequencify_signature : List String := ["value"]

/-- the calls of dataiter/util.py: sequencify in the order Python makes them along the source text -/
def util_sequencify_call_order : List String := ["isinstance", "is_scalar", "hasattr", "list", "type", "ValueError"]

/-- dataiter/util.py: generate_colnames (sha256 of the function source: a4cb927569700a95) -/
def util_generate_colnames (truth : Term → Bool) : Out :=
  Out.ret [] (Term.app "list()" [(Term.app "itertools.islice" [(Term.app "yield_colnames" []), (Term.sym "n")])])

/-- the decorators of dataiter/util.py: generate_colnames, outermost first -/
def util_generate_colnames_decorators : List String := []

/-- the signature of dataiter/util.py: generate_colnames: parameters in order, with the source text of their defaults -/
def util_generate_colnames_signature : List String := ["n"]

/-- the calls of dataiter/util.py: generate_colnames in the order Python makes them along the source text -/
def util_generate_colnames_call_order : List String := ["yield_colnames", "itertools.islice", "list"]

/-- dataiter/util.py: yield_colnames (sha256 of the function source: 5cfed4ff9607c07e) -/
def util_yield_colnames (truth : Term → Bool) : Out :=
  let eff0 : Term := (Term.app "for" [(Term.sym "batch"), (Term.rows (arange (1 : Int) (1000 : Int))), (Term.app "block" [(Term.app "for" [(Term.sym "letter"), (Term.sym "string.ascii_lowercase"), (Term.app "block" [(Term.app "yield" [(Term.app "Mult" [(Term.sym "letter"), (Term.sym "batch")])])])])])]);
  Out.fall [eff0]

/-- the decorators of dataiter/util.py: yield_colnames, outermost first -/
def util_yield_colnames_decorators : List String := []

/-- the signature of dataiter/util.py: yield_colnames: parameters in order, with the source text of their defaults -/
def util_yield_colnames_signature : List String := []

/-- the calls of dataiter/util.py: yield_colnames in the order Python makes them along the source text -/
def util_yield_colnames_call_order : List String := ["range"]

/-- dataiter/data_frame.py: DataFrame.__eq__ (sha256 of the function source: dbd9359511de967d) -/
def DataFrame_eq (truth : Term → Bool) : Out :=
  Out.ret [] (Term.app "And" [(Term.app "isinstance" [(Term.sym "other"), (Term.sym "DataFrame")]), (Term.app "Eq" [(Term.app ".nrow" [(Term.sym "self")]), (Term.app ".nrow" [(Term.sym "other")])]), (Term.app "Eq" [(Term.app ".ncol" [(Term.sym "self")]), (Term.app ".ncol" [(Term.sym "other")])]), (Term.app "Eq" [(Term.app "set()" [(Term.app ".colnames" [(Term.sym "self")])]), (Term.app "set()" [(Term.app ".colnames" [(Term.sym "other")])])]), (Term.app "all" [(Term.app "GeneratorExp" [(Term.app ".equal" [(Term.app "getitem" [(Term.sym "self"), (Term.sym "x")]), (Term.app "getitem" [(Term.sym "other"), (Term.sym "x")])]), (Term.app "in" [(Term.sym "x"), (Term.sym "self"), (Term.app "if" [])])])])])

/-- the decorators of dataiter/data_frame.py: DataFrame.__eq__, outermost first -/
def DataFrame_eq_decorators : List String := []

/-- the signature of dataiter/data_frame.py: DataFrame.__eq__: parameters in order, with the source text of their defaults -/
def DataFrame_eq_signature : List String := ["self", "other"]

/-- the calls of dataiter/data_frame.py: DataFrame.__eq__ in the order Python makes them along the source text -/
def DataFrame_eq_call_order : List String := ["isinstance", "set", "set", "self[x].equal", "all"]

end DI.Gen

/-
  Generated/CodeC01.lean — REGENERATED on every run by harness/py2lean.py from the current source of
  /repo (symbolic execution of small control-flow functions; see Model/PyCore.lean).  Do not edit.
-/
import Model.PyCore

set_option linter.unusedVariables false

namespace DI.Gen

open DI.Py

/-- dataiter/data_frame.py: DataFrameColumn.__new__ (sha256 of the function source: dd0941ce41b79f37) -/
def DataFrameColumn_new (truth : Term → Bool) (nrow_is_None : Bool) (nrow : Int) (column_length : Int) : Out :=
  let object' : Term := (Term.app "util.sequencify" [(Term.sym "object")]);
  let column' : Term := (Term.app "Vector" [object', (Term.sym "dtype")]);
  if ((!nrow_is_None) && decide (nrow ≠ column_length)) then
    if (decide (column_length ≠ (1 : Int)) || decide (nrow < (1 : Int))) then
      Out.raise [] "ValueError"
    else
      let column' : Term := (Term.app "getitem" [column', (Term.app "np.zeros" [(Term.int nrow), (Term.sym "int")])]);
      Out.ret [] (Term.app ".view" [column', (Term.sym "cls")])
  else
    Out.ret [] (Term.app ".view" [column', (Term.sym "cls")])

/-- the decorators of dataiter/data_frame.py: DataFrameColumn.__new__, outermost first -/
def DataFrameColumn_new_decorators : List String := []

/-- the signature of dataiter/data_frame.py: DataFrameColumn.__new__: parameters in order, with the source text of their defaults -/
def DataFrameColumn_new_signature : List String := ["cls", "object", "dtype=None", "nrow=None"]

/-- the calls of dataiter/data_frame.py: DataFrameColumn.__new__ in the order Python makes them along the source text -/
def DataFrameColumn_new_call_order : List String := ["util.sequencify", "Vector", "ValueError", "np.zeros", "column.view"]

/-- dataiter/data_frame.py: DataFrame._reconcile_column (sha256 of the function source: 8374da515148df48) -/
def DataFrame_reconcile_column (truth : Term → Bool) (column_nrow : Int) (self_nrow : Int) : Out :=
  if truth (Term.app "isinstance" [(Term.sym "column"), (Term.sym "DataFrameColumn")]) then
    if decide (column_nrow = self_nrow) then
      Out.ret [] (Term.sym "column")
    else
      let nrow' : Term := (if truth (Term.sym "self") then (Term.int self_nrow) else (Term.sym "None"));
      Out.ret [] (Term.app "DataFrameColumn" [(Term.sym "column"), (Term.app "=nrow" [nrow'])])
  else
    let nrow' : Term := (if truth (Term.sym "self") then (Term.int self_nrow) else (Term.sym "None"));
    Out.ret [] (Term.app "DataFrameColumn" [(Term.sym "column"), (Term.app "=nrow" [nrow'])])

/-- the decorators of dataiter/data_frame.py: DataFrame._reconcile_column, outermost first -/
def DataFrame_reconcile_column_decorators : List String := []

/-- the signature of dataiter/data_frame.py: DataFrame._reconcile_column: parameters in order, with the source text of their defaults -/
def DataFrame_reconcile_column_signature : List String := ["self", "column"]

/-- the calls of dataiter/data_frame.py: DataFrame._reconcile_column in the order Python makes them along the source text -/
def DataFrame_reconcile_column_call_order : List String := ["isinstance", "DataFrameColumn"]

/-- dataiter/data_frame.py: DataFrame._check_dimensions (sha256 of the function source: df97a94de787c0a0) -/
def DataFrame_check_dimensions (truth : Term → Bool) (len_set_nrows : Int) : Out :=
  if (!truth (Term.sym "self")) then
    Out.ret [] (Term.sym "None")
  else
    let nrows' : Term := (Term.app "ListComp" [(Term.app ".nrow" [(Term.sym "x")]), (Term.app "in" [(Term.sym "x"), (Term.app ".columns" [(Term.sym "self")]), (Term.app "if" [])])]);
    if decide (len_set_nrows = (1 : Int)) then
      Out.ret [] (Term.sym "None")
    else
      Out.raise [] "ValueError"

/-- the decorators of dataiter/data_frame.py: DataFrame._check_dimensions, outermost first -/
def DataFrame_check_dimensions_decorators : List String := []

/-- the signature of dataiter/data_frame.py: DataFrame._check_dimensions: parameters in order, with the source text of their defaults -/
def DataFrame_check_dimensions_signature : List String := ["self"]

/-- the calls of dataiter/data_frame.py: DataFrame._check_dimensions in the order Python makes them along the source text -/
def DataFrame_check_dimensions_call_order : List String := ["set", "len", "ValueError"]

/-- dataiter/data_frame.py: DataFrame.__setitem__ (sha256 of the function source: 9efe7aa994c46e8b) -/
def DataFrame_setitem (truth : Term → Bool) : Out :=
  let value' : Term := (Term.app "._reconcile_column" [(Term.sym "self"), (Term.sym "value")]);
  if ((!truth (Term.app ".__hasattr" [(Term.sym "self"), (Term.sym "key")])) && truth (Term.app ".isidentifier" [(Term.sym "key")])) then
    let eff0 : Term := (Term.app "super().__setattr__" [(Term.sym "key"), (Term.app ".COLUMN_PLACEHOLDER" [(Term.sym "self")])]);
    Out.ret [eff0] (Term.app "super().__setitem__" [(Term.sym "key"), value'])
  else
    Out.ret [] (Term.app "super().__setitem__" [(Term.sym "key"), value'])

/-- the decorators of dataiter/data_frame.py: DataFrame.__setitem__, outermost first -/
def DataFrame_setitem_decorators : List String := []

/-- the signature of dataiter/data_frame.py: DataFrame.__setitem__: parameters in order, with the source text of their defaults -/
def DataFrame_setitem_signature : List String := ["self", "key", "value"]

/-- the calls of dataiter/data_frame.py: DataFrame.__setitem__ in the order Python makes them along the source text -/
def DataFrame_setitem_call_order : List String := ["self._reconcile_column", "self.__hasattr", "key.isidentifier", "super", "super().__setattr__", "super", "super().__setitem__"]

/-- dataiter/vector.py: Vector._check_dimensions (sha256 of the function source: edef83c32490bd45) -/
def Vector_check_dimensions (truth : Term → Bool) (self_ndim : Int) : Out :=
  if decide (self_ndim = (1 : Int)) then
    Out.ret [] (Term.sym "None")
  else
    Out.raise [] "ValueError"

/-- the decorators of dataiter/vector.py: Vector._check_dimensions, outermost first -/
def Vector_check_dimensions_decorators : List String := []

/-- the signature of dataiter/vector.py: Vector._check_dimensions: parameters in order, with the source text of their defaults -/
def Vector_check_dimensions_signature : List String := ["self"]

/-- the calls of dataiter/vector.py: Vector._check_dimensions in the order Python makes them along the source text -/
def Vector_check_dimensions_call_order : List String := ["ValueError"]

/-- dataiter/util.py: length (sha256 of the function source: f2c4ff085c8cc78a) -/
def util_length (truth : Term → Bool) (len_value : Int) : Out :=
  Out.ret [] (Term.int (if truth (Term.app "is_scalar" [(Term.sym "value")]) then (1 : Int) else len_value))

/-- the decorators of dataiter/util.py: length, outermost first -/
def util_length_decorators : List String := []

/-- the signature of dataiter/util.py: length: parameters in order, with the source text of their defaults -/
def util_length_signature : List String := ["value"]

/-- the calls of dataiter/util.py: length in the order Python makes them along the source text -/
def util_length_call_order : List String := ["is_scalar", "len"]

/-- dataiter/vector.py: Vector.length (sha256 of the function source: f9a8d1600615e72a) -/
def Vector_length (truth : Term → Bool) : Out :=
  let eff0 : Term := (Term.app "._check_dimensions" [(Term.sym "self")]);
  Out.ret [eff0] (Term.app ".size" [(Term.sym "self")])

/-- the decorators of dataiter/vector.py: Vector.length, outermost first -/
def Vector_length_decorators : List String := ["property"]

/-- the signature of dataiter/vector.py: Vector.length: parameters in order, with the source text of their defaults -/
def Vector_length_signature : List String := ["self"]

/-- the calls of dataiter/vector.py: Vector.length in the order Python makes them along the source text -/
def Vector_length_call_order : List String := ["self._check_dimensions"]

/-- dataiter/data_frame.py: DataFrame.nrow (sha256 of the function source: be27b9810d333211) -/
def DataFrame_nrow (truth : Term → Bool) : Out :=
  if (!truth (Term.sym "self")) then
    Out.ret [] (Term.int (0 : Int))
  else
    let eff0 : Term := (Term.app "._check_dimensions" [(Term.sym "self")]);
    Out.ret [eff0] (Term.app ".nrow" [(Term.app "getitem" [(Term.sym "self"), (Term.app "next" [(Term.app "iter" [(Term.sym "self")])])])])

/-- the decorators of dataiter/data_frame.py: DataFrame.nrow, outermost first -/
def DataFrame_nrow_decorators : List String := ["property"]

/-- the signature of dataiter/data_frame.py: DataFrame.nrow: parameters in order, with the source text of their defaults -/
def DataFrame_nrow_signature : List String := ["self"]

/-- the calls of dataiter/data_frame.py: DataFrame.nrow in the order Python makes them along the source text -/
def DataFrame_nrow_call_order : List String := ["self._check_dimensions", "iter", "next"]

/-- dataiter/data_frame.py: DataFrame.__delitem__ (sha256 of the function source: 4e1dbfa272dd4be5) -/
def DataFrame_delitem (truth : Term → Bool) : Out :=
  let value' : Term := (Term.app "super().__delitem__" [(Term.sym "key")]);
  if truth (Term.app "hasattr" [(Term.sym "self"), (Term.sym "key")]) then
    if (!truth (Term.app ".__is_builtin_attr" [(Term.sym "self"), (Term.sym "key")])) then
      let eff0 : Term := (Term.app "super().__delattr__" [(Term.sym "key")]);
      Out.ret [eff0] value'
    else
      Out.ret [] value'
  else
    Out.ret [] value'

/-- the decorators of dataiter/data_frame.py: DataFrame.__delitem__, outermost first -/
def DataFrame_delitem_decorators : List String := []

/-- the signature of dataiter/data_frame.py: DataFrame.__delitem__: parameters in order, with the source text of their defaults -/
def DataFrame_delitem_signature : List String := ["self", "key"]

/-- the calls of dataiter/data_frame.py: DataFrame.__delitem__ in the order Python makes them along the source text -/
def DataFrame_delitem_call_order : List String := ["super", "super().__delitem__", "hasattr", "self.__is_builtin_attr", "super", "super().__delattr__"]

/-- dataiter/data_frame.py: DataFrame.pop (sha256 of the function source: 1e9bd023a4d66dbe) -/
def DataFrame_pop (truth : Term → Bool) : Out :=
  let value' : Term := (Term.app "super().pop" [(Term.sym "key"), (Term.app "*" [(Term.sym "args")]), (Term.app "=**" [(Term.sym "kwargs")])]);
  if truth (Term.app "hasattr" [(Term.sym "self"), (Term.sym "key")]) then
    if (!truth (Term.app ".__is_builtin_attr" [(Term.sym "self"), (Term.sym "key")])) then
      let eff0 : Term := (Term.app "super().__delattr__" [(Term.sym "key")]);
      Out.ret [eff0] value'
    else
      Out.ret [] value'
  else
    Out.ret [] value'

/-- the decorators of dataiter/data_frame.py: DataFrame.pop, outermost first -/
def DataFrame_pop_decorators : List String := []

/-- the signature of dataiter/data_frame.py: DataFrame.pop: parameters in order, with the source text of their defaults -/
def DataFrame_pop_signature : List String := ["self", "key", "*args", "**kwargs"]

/-- the calls of dataiter/data_frame.py: DataFrame.pop in the order Python makes them along the source text -/
def DataFrame_pop_call_order : List String := ["super", "super().pop", "hasattr", "self.__is_builtin_attr", "super", "super().__delattr__"]

/-- dataiter/data_frame.py: DataFrame.__delattr__ (sha256 of the function source: d451320c51b8280e) -/
def DataFrame_delattr (truth : Term → Bool) : Out :=
  if truth (Term.app "In" [(Term.sym "name"), (Term.sym "self")]) then
    Out.ret [] (Term.app ".__delitem__" [(Term.sym "self"), (Term.sym "name")])
  else
    Out.ret [] (Term.app "super().__delattr__" [(Term.sym "name")])

/-- the decorators of dataiter/data_frame.py: DataFrame.__delattr__, outermost first -/
def DataFrame_delattr_decorators : List String := []

/-- the signature of dataiter/data_frame.py: DataFrame.__delattr__: parameters in order, with the source text of their defaults -/
def DataFrame_delattr_signature : List String := ["self", "name"]

/-- the calls of dataiter/data_frame.py: DataFrame.__delattr__ in the order Python makes them along the source text -/
def DataFrame_delattr_call_order : List String := ["self.__delitem__", "super", "super().__delattr__"]

/-- dataiter/data_frame.py: DataFrame.__getattr__ (sha256 of the function source: 018a5f2266811708) -/
def DataFrame_getattr (truth : Term → Bool) : Out :=
  if truth (Term.app "In" [(Term.sym "name"), (Term.sym "self")]) then
    Out.ret [] (Term.app ".__getitem__" [(Term.sym "self"), (Term.sym "name")])
  else
    Out.raise [] "AttributeError"

/-- the decorators of dataiter/data_frame.py: DataFrame.__getattr__, outermost first -/
def DataFrame_getattr_decorators : List String := []

/-- the signature of dataiter/data_frame.py: DataFrame.__getattr__: parameters in order, with the source text of their defaults -/
def DataFrame_getattr_signature : List String := ["self", "name"]

/-- the calls of dataiter/data_frame.py: DataFrame.__getattr__ in the order Python makes them along the source text -/
def DataFrame_getattr_call_order : List String := ["self.__getitem__", "AttributeError"]

/-- dataiter/data_frame.py: DataFrame.__getattribute__ (sha256 of the function source: 3d4c793237b501e6) -/
def DataFrame_getattribute (truth : Term → Bool) : Out :=
  let value' : Term := (Term.app "super().__getattribute__" [(Term.sym "name")]);
  if truth (Term.app "Eq" [(Term.sym "name"), (Term.sym "'COLUMN_PLACEHOLDER'")]) then
    Out.ret [] value'
  else
    if (truth (Term.app "Is" [value', (Term.app ".COLUMN_PLACEHOLDER" [(Term.sym "self")])]) && truth (Term.app "In" [(Term.sym "name"), (Term.sym "self")])) then
      Out.ret [] (Term.app "getitem" [(Term.sym "self"), (Term.sym "name")])
    else
      Out.ret [] value'

/-- the decorators of dataiter/data_frame.py: DataFrame.__getattribute__, outermost first -/
def DataFrame_getattribute_decorators : List String := []

/-- the signature of dataiter/data_frame.py: DataFrame.__getattribute__: parameters in order, with the source text of their defaults -/
def DataFrame_getattribute_signature : List String := ["self", "name"]

/-- the calls of dataiter/data_frame.py: DataFrame.__getattribute__ in the order Python makes them along the source text -/
def DataFrame_getattribute_call_order : List String := ["super", "super().__getattribute__"]

end DI.Gen

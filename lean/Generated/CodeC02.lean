/-
  Generated/CodeC02.lean — REGENERATED on every run by harness/py2lean.py from the current source of
  /repo (symbolic execution of small control-flow functions; see Model/PyCore.lean).  Do not edit.
-/
import Model.PyCore

set_option linter.unusedVariables false

namespace DI.Gen

open DI.Py

/-- dataiter/data_frame.py: DataFrame.head (sha256 of the function source: 5e900501514f5a7d) -/
def DataFrame_head (truth : Term → Bool) (n_is_None : Bool) (dataiter_DEFAULT_PEEK_ROWS : Int) (self_nrow : Int) (n : Int) : Out :=
  if n_is_None then
    let n' : Int := dataiter_DEFAULT_PEEK_ROWS;
    let n' : Int := (pmin self_nrow n');
    Out.ret [] (Term.app ".slice" [(Term.sym "self"), (Term.rows (arange (0 : Int) n'))])
  else
    let n' : Int := (pmin self_nrow n);
    Out.ret [] (Term.app ".slice" [(Term.sym "self"), (Term.rows (arange (0 : Int) n'))])

/-- the decorators of dataiter/data_frame.py: DataFrame.head, outermost first -/
def DataFrame_head_decorators : List String := []

/-- the signature of dataiter/data_frame.py: DataFrame.head: parameters in order, with the source text of their defaults -/
def DataFrame_head_signature : List String := ["self", "n=None"]

/-- the calls of dataiter/data_frame.py: DataFrame.head in the order Python makes them along the source text -/
def DataFrame_head_call_order : List String := ["min", "np.arange", "self.slice"]

/-- dataiter/data_frame.py: DataFrame.tail (sha256 of the function source: 6cbedf94d0ca7a46) -/
def DataFrame_tail (truth : Term → Bool) (n_is_None : Bool) (dataiter_DEFAULT_PEEK_ROWS : Int) (self_nrow : Int) (n : Int) : Out :=
  if n_is_None then
    let n' : Int := dataiter_DEFAULT_PEEK_ROWS;
    let n' : Int := (pmin self_nrow n');
    Out.ret [] (Term.app ".slice" [(Term.sym "self"), (Term.rows (arange (self_nrow - n') self_nrow))])
  else
    let n' : Int := (pmin self_nrow n);
    Out.ret [] (Term.app ".slice" [(Term.sym "self"), (Term.rows (arange (self_nrow - n') self_nrow))])

/-- the decorators of dataiter/data_frame.py: DataFrame.tail, outermost first -/
def DataFrame_tail_decorators : List String := []

/-- the signature of dataiter/data_frame.py: DataFrame.tail: parameters in order, with the source text of their defaults -/
def DataFrame_tail_signature : List String := ["self", "n=None"]

/-- the calls of dataiter/data_frame.py: DataFrame.tail in the order Python makes them along the source text -/
def DataFrame_tail_call_order : List String := ["min", "np.arange", "self.slice"]

/-- dataiter/data_frame.py: DataFrame._parse_rows_from_boolean (sha256 of the function source: 28fa19cce9bf339b) -/
def DataFrame_parse_rows_from_boolean (truth : Term → Bool) (len_rows : Int) (self_nrow : Int) : Out :=
  let rows' : Term := (Term.app "Vector.fast" [(Term.sym "rows"), (Term.sym "bool")]);
  if decide (len_rows ≠ self_nrow) then
    Out.raise [] "ValueError"
  else
    Out.ret [] (Term.app "Vector.fast" [(Term.app "getitem" [(Term.app "np.nonzero" [rows']), (Term.int (0 : Int))]), (Term.sym "int")])

/-- the decorators of dataiter/data_frame.py: DataFrame._parse_rows_from_boolean, outermost first -/
def DataFrame_parse_rows_from_boolean_decorators : List String := []

/-- the signature of dataiter/data_frame.py: DataFrame._parse_rows_from_boolean: parameters in order, with the source text of their defaults -/
def DataFrame_parse_rows_from_boolean_signature : List String := ["self", "rows"]

/-- the calls of dataiter/data_frame.py: DataFrame._parse_rows_from_boolean in the order Python makes them along the source text -/
def DataFrame_parse_rows_from_boolean_call_order : List String := ["Vector.fast", "len", "ValueError", "np.nonzero", "Vector.fast"]

/-- dataiter/data_frame.py: DataFrame.filter (sha256 of the function source: c45f431825ecd074) -/
def DataFrame_filter (truth : Term → Bool) (rows_is_None : Bool) : Out :=
  if (!rows_is_None) then
    if truth (Term.app "callable" [(Term.sym "rows")]) then
      let rows' : Term := (Term.app "rows" [(Term.sym "self")]);
      let rows' : Term := (Term.app "._parse_rows_from_boolean" [(Term.sym "self"), rows']);
      let eff0 : Term := (Term.app "for" [(Term.app "tuple" [(Term.sym "colname"), (Term.sym "column")]), (Term.app ".items" [(Term.sym "self")]), (Term.app "block" [(Term.app "yield" [(Term.app "tuple" [(Term.sym "colname"), (Term.app "np.take" [(Term.sym "column"), rows'])])])])]);
      Out.fall [eff0]
    else
      let rows' : Term := (Term.app "._parse_rows_from_boolean" [(Term.sym "self"), (Term.sym "rows")]);
      let eff0 : Term := (Term.app "for" [(Term.app "tuple" [(Term.sym "colname"), (Term.sym "column")]), (Term.app ".items" [(Term.sym "self")]), (Term.app "block" [(Term.app "yield" [(Term.app "tuple" [(Term.sym "colname"), (Term.app "np.take" [(Term.sym "column"), rows'])])])])]);
      Out.fall [eff0]
  else
    if truth (Term.sym "colname_value_pairs") then
      let rows' : Term := (Term.app ".repeat" [(Term.app "Vector.fast" [(Term.app "list" [(Term.sym "True")]), (Term.sym "bool")]), (Term.app ".nrow" [(Term.sym "self")])]);
      let eff0 : Term := (Term.app "for" [(Term.app "tuple" [(Term.sym "colname"), (Term.sym "value")]), (Term.app ".items" [(Term.sym "colname_value_pairs")]), (Term.app "block" [(Term.app "assign" [(Term.sym "rows"), (Term.app "BitAnd" [(Term.sym "rows"), (Term.app "Eq" [(Term.app "getitem" [(Term.sym "self"), (Term.sym "colname")]), (Term.sym "value")])])])]), (Term.app "init" [(Term.sym "rows"), rows'])]);
      let rows' : Term := (Term.app "value-after-loop" [(Term.sym "rows"), eff0]);
      let rows' : Term := (Term.app "._parse_rows_from_boolean" [(Term.sym "self"), rows']);
      let eff1 : Term := (Term.app "for" [(Term.app "tuple" [(Term.sym "colname"), (Term.sym "column")]), (Term.app ".items" [(Term.sym "self")]), (Term.app "block" [(Term.app "yield" [(Term.app "tuple" [(Term.sym "colname"), (Term.app "np.take" [(Term.sym "column"), rows'])])])])]);
      Out.fall [eff0, eff1]
    else
      let rows' : Term := (Term.app "._parse_rows_from_boolean" [(Term.sym "self"), (Term.sym "rows")]);
      let eff0 : Term := (Term.app "for" [(Term.app "tuple" [(Term.sym "colname"), (Term.sym "column")]), (Term.app ".items" [(Term.sym "self")]), (Term.app "block" [(Term.app "yield" [(Term.app "tuple" [(Term.sym "colname"), (Term.app "np.take" [(Term.sym "column"), rows'])])])])]);
      Out.fall [eff0]

/-- the decorators of dataiter/data_frame.py: DataFrame.filter, outermost first -/
def DataFrame_filter_decorators : List String := ["deco.new_from_generator"]

/-- the signature of dataiter/data_frame.py: DataFrame.filter: parameters in order, with the source text of their defaults -/
def DataFrame_filter_signature : List String := ["self", "rows=None", "**colname_value_pairs"]

/-- the calls of dataiter/data_frame.py: DataFrame.filter in the order Python makes them along the source text -/
def DataFrame_filter_call_order : List String := ["callable", "rows", "Vector.fast", "Vector.fast([True], bool).repeat", "colname_value_pairs.items", "self._parse_rows_from_boolean", "self.items", "np.take"]

/-- dataiter/data_frame.py: DataFrame.filter_out (sha256 of the function source: e11629f5d098ab96) -/
def DataFrame_filter_out (truth : Term → Bool) (rows_is_None : Bool) : Out :=
  if (!rows_is_None) then
    if truth (Term.app "callable" [(Term.sym "rows")]) then
      let rows' : Term := (Term.app "rows" [(Term.sym "self")]);
      let rows' : Term := (Term.app "._parse_rows_from_boolean" [(Term.sym "self"), rows']);
      let eff0 : Term := (Term.app "for" [(Term.app "tuple" [(Term.sym "colname"), (Term.sym "column")]), (Term.app ".items" [(Term.sym "self")]), (Term.app "block" [(Term.app "yield" [(Term.app "tuple" [(Term.sym "colname"), (Term.app "np.delete" [(Term.sym "column"), rows'])])])])]);
      Out.fall [eff0]
    else
      let rows' : Term := (Term.app "._parse_rows_from_boolean" [(Term.sym "self"), (Term.sym "rows")]);
      let eff0 : Term := (Term.app "for" [(Term.app "tuple" [(Term.sym "colname"), (Term.sym "column")]), (Term.app ".items" [(Term.sym "self")]), (Term.app "block" [(Term.app "yield" [(Term.app "tuple" [(Term.sym "colname"), (Term.app "np.delete" [(Term.sym "column"), rows'])])])])]);
      Out.fall [eff0]
  else
    if truth (Term.sym "colname_value_pairs") then
      let rows' : Term := (Term.app ".repeat" [(Term.app "Vector.fast" [(Term.app "list" [(Term.sym "True")]), (Term.sym "bool")]), (Term.app ".nrow" [(Term.sym "self")])]);
      let eff0 : Term := (Term.app "for" [(Term.app "tuple" [(Term.sym "colname"), (Term.sym "value")]), (Term.app ".items" [(Term.sym "colname_value_pairs")]), (Term.app "block" [(Term.app "assign" [(Term.sym "rows"), (Term.app "BitAnd" [(Term.sym "rows"), (Term.app "Eq" [(Term.app "getitem" [(Term.sym "self"), (Term.sym "colname")]), (Term.sym "value")])])])]), (Term.app "init" [(Term.sym "rows"), rows'])]);
      let rows' : Term := (Term.app "value-after-loop" [(Term.sym "rows"), eff0]);
      let rows' : Term := (Term.app "._parse_rows_from_boolean" [(Term.sym "self"), rows']);
      let eff1 : Term := (Term.app "for" [(Term.app "tuple" [(Term.sym "colname"), (Term.sym "column")]), (Term.app ".items" [(Term.sym "self")]), (Term.app "block" [(Term.app "yield" [(Term.app "tuple" [(Term.sym "colname"), (Term.app "np.delete" [(Term.sym "column"), rows'])])])])]);
      Out.fall [eff0, eff1]
    else
      let rows' : Term := (Term.app "._parse_rows_from_boolean" [(Term.sym "self"), (Term.sym "rows")]);
      let eff0 : Term := (Term.app "for" [(Term.app "tuple" [(Term.sym "colname"), (Term.sym "column")]), (Term.app ".items" [(Term.sym "self")]), (Term.app "block" [(Term.app "yield" [(Term.app "tuple" [(Term.sym "colname"), (Term.app "np.delete" [(Term.sym "column"), rows'])])])])]);
      Out.fall [eff0]

/-- the decorators of dataiter/data_frame.py: DataFrame.filter_out, outermost first -/
def DataFrame_filter_out_decorators : List String := ["deco.new_from_generator"]

/-- the signature of dataiter/data_frame.py: DataFrame.filter_out: parameters in order, with the source text of their defaults -/
def DataFrame_filter_out_signature : List String := ["self", "rows=None", "**colname_value_pairs"]

/-- the calls of dataiter/data_frame.py: DataFrame.filter_out in the order Python makes them along the source text -/
def DataFrame_filter_out_call_order : List String := ["callable", "rows", "Vector.fast", "Vector.fast([True], bool).repeat", "colname_value_pairs.items", "self._parse_rows_from_boolean", "self.items", "np.delete"]

/-- dataiter/data_frame.py: DataFrame.slice (sha256 of the function source: 511154c3813eb735) -/
def DataFrame_slice (truth : Term → Bool) (rows_is_None : Bool) (cols_is_None : Bool) : Out :=
  let rows' : Term := (if rows_is_None then (Term.app "np.arange" [(Term.app ".nrow" [(Term.sym "self")])]) else (Term.sym "rows"));
  let cols' : Term := (if cols_is_None then (Term.app "np.arange" [(Term.app ".ncol" [(Term.sym "self")])]) else (Term.sym "cols"));
  let rows' : Term := (Term.app "._parse_rows_from_integer" [(Term.sym "self"), rows']);
  let cols' : Term := (Term.app "._parse_cols_from_integer" [(Term.sym "self"), cols']);
  let eff0 : Term := (Term.app "for" [(Term.sym "colname"), (Term.app "GeneratorExp" [(Term.app "getitem" [(Term.app ".colnames" [(Term.sym "self")]), (Term.sym "x")]), (Term.app "in" [(Term.sym "x"), cols', (Term.app "if" [])])]), (Term.app "block" [(Term.app "yield" [(Term.app "tuple" [(Term.sym "colname"), (Term.app ".copy" [(Term.app "getitem" [(Term.app "getitem" [(Term.sym "self"), (Term.sym "colname")]), rows'])])])])])]);
  Out.fall [eff0]

/-- the decorators of dataiter/data_frame.py: DataFrame.slice, outermost first -/
def DataFrame_slice_decorators : List String := ["deco.new_from_generator"]

/-- the signature of dataiter/data_frame.py: DataFrame.slice: parameters in order, with the source text of their defaults -/
def DataFrame_slice_signature : List String := ["self", "rows=None", "cols=None"]

/-- the calls of dataiter/data_frame.py: DataFrame.slice in the order Python makes them along the source text -/
def DataFrame_slice_call_order : List String := ["np.arange", "np.arange", "self._parse_rows_from_integer", "self._parse_cols_from_integer", "self[colname][rows].copy"]

/-- dataiter/data_frame.py: DataFrame.slice_off (sha256 of the function source: f6a15670316a4411) -/
def DataFrame_slice_off (truth : Term → Bool) (rows_is_None : Bool) (cols_is_None : Bool) : Out :=
  let rows' : Term := (if rows_is_None then (Term.app "list" []) else (Term.sym "rows"));
  let cols' : Term := (if cols_is_None then (Term.app "list" []) else (Term.sym "cols"));
  let rows' : Term := (Term.app "._parse_rows_from_integer" [(Term.sym "self"), rows']);
  let cols' : Term := (Term.app "._parse_cols_from_integer" [(Term.sym "self"), cols']);
  let eff0 : Term := (Term.app "for" [(Term.app "tuple" [(Term.sym "i"), (Term.sym "colname")]), (Term.app "enumerate" [(Term.app ".colnames" [(Term.sym "self")])]), (Term.app "block" [(Term.app "if" [(Term.app "In" [(Term.sym "i"), cols']), (Term.app "block" [(Term.sym "continue")]), (Term.app "block" [])]), (Term.app "yield" [(Term.app "tuple" [(Term.sym "colname"), (Term.app "np.delete" [(Term.app "getitem" [(Term.sym "self"), (Term.sym "colname")]), rows'])])])])]);
  Out.fall [eff0]

/-- the decorators of dataiter/data_frame.py: DataFrame.slice_off, outermost first -/
def DataFrame_slice_off_decorators : List String := ["deco.new_from_generator"]

/-- the signature of dataiter/data_frame.py: DataFrame.slice_off: parameters in order, with the source text of their defaults -/
def DataFrame_slice_off_signature : List String := ["self", "rows=None", "cols=None"]

/-- the calls of dataiter/data_frame.py: DataFrame.slice_off in the order Python makes them along the source text -/
def DataFrame_slice_off_call_order : List String := ["self._parse_rows_from_integer", "self._parse_cols_from_integer", "enumerate", "np.delete"]

/-- dataiter/data_frame.py: DataFrame.drop_na (sha256 of the function source: 16b3ee3bca8991c0) -/
def DataFrame_drop_na (truth : Term → Bool) : Out :=
  let drop' : Term := (Term.app ".repeat" [(Term.app "Vector.fast" [(Term.app "list" [(Term.sym "False")]), (Term.sym "bool")]), (Term.app ".nrow" [(Term.sym "self")])]);
  let eff0 : Term := (Term.app "for" [(Term.sym "colname"), (Term.sym "colnames"), (Term.app "block" [(Term.app "assign" [(Term.sym "drop"), (Term.app "BitOr" [(Term.sym "drop"), (Term.app ".is_na" [(Term.app "getitem" [(Term.sym "self"), (Term.sym "colname")])])])])]), (Term.app "init" [(Term.sym "drop"), drop'])]);
  let drop' : Term := (Term.app "value-after-loop" [(Term.sym "drop"), eff0]);
  Out.ret [eff0] (Term.app ".filter_out" [(Term.sym "self"), drop'])

/-- the decorators of dataiter/data_frame.py: DataFrame.drop_na, outermost first -/
def DataFrame_drop_na_decorators : List String := []

/-- the signature of dataiter/data_frame.py: DataFrame.drop_na: parameters in order, with the source text of their defaults -/
def DataFrame_drop_na_signature : List String := ["self", "*colnames"]

/-- the calls of dataiter/data_frame.py: DataFrame.drop_na in the order Python makes them along the source text -/
def DataFrame_drop_na_call_order : List String := ["Vector.fast", "Vector.fast([False], bool).repeat", "self[colname].is_na", "self.filter_out"]

/-- dataiter/data_frame.py: DataFrame.unique (sha256 of the function source: 6a3c24bcd387b834) -/
def DataFrame_unique (truth : Term → Bool) : Out :=
  let colnames' : Term := (Term.app "Or" [(Term.sym "colnames"), (Term.app ".colnames" [(Term.sym "self")])]);
  let columns' : Term := (Term.app "ListComp" [(Term.app "getitem" [(Term.sym "self"), (Term.sym "x")]), (Term.app "in" [(Term.sym "x"), colnames', (Term.app "if" [])])]);
  let eff0 : Term := (Term.app "for" [(Term.app "tuple" [(Term.sym "i"), (Term.sym "column")]), (Term.app "enumerate" [columns']), (Term.app "block" [(Term.app "if" [(Term.app "Or" [(Term.app ".is_datetime" [(Term.sym "column")]), (Term.app ".is_float" [(Term.sym "column")]), (Term.app ".is_timedelta" [(Term.sym "column")])]), (Term.app "block" [(Term.app "store" [(Term.app "getitem" [columns', (Term.sym "i")]), (Term.app "np.where" [(Term.app ".is_na" [(Term.sym "column")]), (Term.sym "None"), (Term.sym "column")])])]), (Term.app "block" [])])])]);
  let rows' : Term := (Term.app "list()" [(Term.app "zip" [(Term.app "*" [columns'])])]);
  let seen' : Term := (Term.app "set()" []);
  let keep' : Term := (Term.app "list" []);
  let eff1 : Term := (Term.app "for" [(Term.sym "i"), (Term.app "range" [(Term.app ".nrow" [(Term.sym "self")])]), (Term.app "block" [(Term.app "if" [(Term.app "NotIn" [(Term.app "getitem" [rows', (Term.sym "i")]), seen']), (Term.app "block" [(Term.app ".add" [seen', (Term.app "getitem" [rows', (Term.sym "i")])]), (Term.app ".append" [keep', (Term.sym "i")])]), (Term.app "block" [])])])]);
  let eff2 : Term := (Term.app "for" [(Term.app "tuple" [(Term.sym "colname"), (Term.sym "column")]), (Term.app ".items" [(Term.sym "self")]), (Term.app "block" [(Term.app "yield" [(Term.app "tuple" [(Term.sym "colname"), (Term.app ".copy" [(Term.app "getitem" [(Term.sym "column"), keep'])])])])])]);
  Out.fall [eff0, eff1, eff2]

/-- the decorators of dataiter/data_frame.py: DataFrame.unique, outermost first -/
def DataFrame_unique_decorators : List String := ["deco.new_from_generator"]

/-- the signature of dataiter/data_frame.py: DataFrame.unique: parameters in order, with the source text of their defaults -/
def DataFrame_unique_signature : List String := ["self", "*colnames"]

/-- the calls of dataiter/data_frame.py: DataFrame.unique in the order Python makes them along the source text -/
def DataFrame_unique_call_order : List String := ["enumerate", "column.is_datetime", "column.is_float", "column.is_timedelta", "column.is_na", "np.where", "zip", "list", "set", "range", "seen.add", "keep.append", "self.items", "column[keep].copy"]

/-- dataiter/data_frame.py: DataFrame._parse_cols_from_boolean (sha256 of the function source: 4d4fb51eba611048) -/
def DataFrame_parse_cols_from_boolean (truth : Term → Bool) : Out :=
  let cols' : Term := (Term.app "Vector.fast" [(Term.sym "cols"), (Term.sym "bool")]);
  if truth (Term.app "NotEq" [(Term.app "len" [cols']), (Term.app ".ncol" [(Term.sym "self")])]) then
    Out.raise [] "ValueError"
  else
    Out.ret [] (Term.app "Vector.fast" [(Term.app "getitem" [(Term.app "np.nonzero" [cols']), (Term.int (0 : Int))]), (Term.sym "int")])

/-- the decorators of dataiter/data_frame.py: DataFrame._parse_cols_from_boolean, outermost first -/
def DataFrame_parse_cols_from_boolean_decorators : List String := []

/-- the signature of dataiter/data_frame.py: DataFrame._parse_cols_from_boolean: parameters in order, with the source text of their defaults -/
def DataFrame_parse_cols_from_boolean_signature : List String := ["self", "cols"]

/-- the calls of dataiter/data_frame.py: DataFrame._parse_cols_from_boolean in the order Python makes them along the source text -/
def DataFrame_parse_cols_from_boolean_call_order : List String := ["Vector.fast", "len", "ValueError", "np.nonzero", "Vector.fast"]

/-- dataiter/data_frame.py: DataFrame._parse_cols_from_integer (sha256 of the function source: 855af1c015e1136b) -/
def DataFrame_parse_cols_from_integer (truth : Term → Bool) : Out :=
  Out.ret [] (Term.app "Vector.fast" [(Term.sym "cols"), (Term.sym "int")])

/-- the decorators of dataiter/data_frame.py: DataFrame._parse_cols_from_integer, outermost first -/
def DataFrame_parse_cols_from_integer_decorators : List String := []

/-- the signature of dataiter/data_frame.py: DataFrame._parse_cols_from_integer: parameters in order, with the source text of their defaults -/
def DataFrame_parse_cols_from_integer_signature : List String := ["self", "cols"]

/-- the calls of dataiter/data_frame.py: DataFrame._parse_cols_from_integer in the order Python makes them along the source text -/
def DataFrame_parse_cols_from_integer_call_order : List String := ["Vector.fast"]

/-- dataiter/data_frame.py: DataFrame._parse_rows_from_integer (sha256 of the function source: 91490b450af714e0) -/
def DataFrame_parse_rows_from_integer (truth : Term → Bool) : Out :=
  Out.ret [] (Term.app "Vector.fast" [(Term.sym "rows"), (Term.sym "int")])

/-- the decorators of dataiter/data_frame.py: DataFrame._parse_rows_from_integer, outermost first -/
def DataFrame_parse_rows_from_integer_decorators : List String := []

/-- the signature of dataiter/data_frame.py: DataFrame._parse_rows_from_integer: parameters in order, with the source text of their defaults -/
def DataFrame_parse_rows_from_integer_signature : List String := ["self", "rows"]

/-- the calls of dataiter/data_frame.py: DataFrame._parse_rows_from_integer in the order Python makes them along the source text -/
def DataFrame_parse_rows_from_integer_call_order : List String := ["Vector.fast"]

/-- dataiter/data_frame.py: DataFrame.sample (sha256 of the function source: e9978ee957e3dbd2) -/
def DataFrame_sample (truth : Term → Bool) (n_is_None : Bool) : Out :=
  if n_is_None then
    let n' : Term := (Term.sym "dataiter.DEFAULT_PEEK_ROWS");
    let n' : Term := (Term.app "min" [(Term.app ".nrow" [(Term.sym "self")]), n']);
    let rows' : Term := (Term.app "np.random.choice" [(Term.app ".nrow" [(Term.sym "self")]), n', (Term.app "=replace" [(Term.sym "False")])]);
    Out.ret [] (Term.app ".slice" [(Term.sym "self"), (Term.app "np.sort" [rows'])])
  else
    let n' : Term := (Term.app "min" [(Term.app ".nrow" [(Term.sym "self")]), (Term.sym "n")]);
    let rows' : Term := (Term.app "np.random.choice" [(Term.app ".nrow" [(Term.sym "self")]), n', (Term.app "=replace" [(Term.sym "False")])]);
    Out.ret [] (Term.app ".slice" [(Term.sym "self"), (Term.app "np.sort" [rows'])])

/-- the decorators of dataiter/data_frame.py: DataFrame.sample, outermost first -/
def DataFrame_sample_decorators : List String := []

/-- the signature of dataiter/data_frame.py: DataFrame.sample: parameters in order, with the source text of their defaults -/
def DataFrame_sample_signature : List String := ["self", "n=None"]

/-- the calls of dataiter/data_frame.py: DataFrame.sample in the order Python makes them along the source text -/
def DataFrame_sample_call_order : List String := ["min", "np.random.choice", "np.sort", "self.slice"]

/-- dataiter/data_frame.py: DataFrame._view_rows (sha256 of the function source: 65d635088468aa65) -/
def DataFrame_view_rows (truth : Term → Bool) : Out :=
  let data' : Term := (Term.app ".__class__" [(Term.sym "self")]);
  let eff0 : Term := (Term.app "dict.update" [data', (Term.app "DictComp" [(Term.app "pair" [(Term.sym "x"), (Term.app "getitem" [(Term.app "getitem" [(Term.sym "self"), (Term.sym "x")]), (Term.sym "rows")])]), (Term.app "in" [(Term.sym "x"), (Term.sym "self"), (Term.app "if" [])])])]);
  Out.ret [eff0] data'

/-- the decorators of dataiter/data_frame.py: DataFrame._view_rows, outermost first -/
def DataFrame_view_rows_decorators : List String := []

/-- the signature of dataiter/data_frame.py: DataFrame._view_rows: parameters in order, with the source text of their defaults -/
def DataFrame_view_rows_signature : List String := ["self", "rows"]

/-- the calls of dataiter/data_frame.py: DataFrame._view_rows in the order Python makes them along the source text -/
def DataFrame_view_rows_call_order : List String := ["self.__class__", "dict.update"]

end DI.Gen

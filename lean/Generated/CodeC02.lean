/-
  Generated/CodeC02.lean — REGENERATED on every run by harness/py2lean.py from the current source of
  /repo (symbolic execution of small control-flow functions; see Model/PyCore.lean).  Do not edit.
-/
import Model.PyCore

set_option linter.unusedVariables false

namespace DI.Gen

open DI.Py

/-- dataiter/data_frame.py: DataFrame.head (sha256 of the function source: 5e900501514f5a7d) -/
def DataFrame_head (truth : Term → Bool) (n_is_None : Bool) (dataiter_DEFAULT_PEEK_ROWS : Int) (self_nrow : Int) (n : Int) : Out :=
  if n_is_None then
    let n' : Int := dataiter_DEFAULT_PEEK_ROWS;
    let n' : Int := (pmin self_nrow n');
    Out.ret [] (Term.app ".slice" [(Term.sym "self"), (Term.rows (arange (0 : Int) n'))])
  else
    let n' : Int := (pmin self_nrow n);
    Out.ret [] (Term.app ".slice" [(Term.sym "self"), (Term.rows (arange (0 : Int) n'))])

/-- dataiter/data_frame.py: DataFrame.tail (sha256 of the function source: 6cbedf94d0ca7a46) -/
def DataFrame_tail (truth : Term → Bool) (n_is_None : Bool) (dataiter_DEFAULT_PEEK_ROWS : Int) (self_nrow : Int) (n : Int) : Out :=
  if n_is_None then
    let n' : Int := dataiter_DEFAULT_PEEK_ROWS;
    let n' : Int := (pmin self_nrow n');
    Out.ret [] (Term.app ".slice" [(Term.sym "self"), (Term.rows (arange (self_nrow - n') self_nrow))])
  else
    let n' : Int := (pmin self_nrow n);
    Out.ret [] (Term.app ".slice" [(Term.sym "self"), (Term.rows (arange (self_nrow - n') self_nrow))])

/-- dataiter/data_frame.py: DataFrame._parse_rows_from_boolean (sha256 of the function source: 28fa19cce9bf339b) -/
def DataFrame_parse_rows_from_boolean (truth : Term → Bool) (len_rows : Int) (self_nrow : Int) : Out :=
  let rows' : Term := (Term.app "Vector.fast" [(Term.sym "rows"), (Term.sym "bool")]);
  if decide (len_rows ≠ self_nrow) then
    Out.raise [] "ValueError"
  else
    Out.ret [] (Term.app "Vector.fast" [(Term.app "getitem" [(Term.app "np.nonzero" [rows']), (Term.int (0 : Int))]), (Term.sym "int")])

end DI.Gen

import Proofs.C11
#print axioms DI.C11.vsort_perm
#print axioms DI.C11.vsort_ordered
#print axioms DI.C11.rank_min_spec
#print axioms DI.C11.rank_max_spec
#print axioms DI.C11.key_order_is_linear

import Proofs.C11
import Proofs.TieC11
#print axioms DI.C11.vsort_perm
#print axioms DI.C11.vsort_ordered
#print axioms DI.C11.rank_min_spec
#print axioms DI.C11.rank_max_spec
#print axioms DI.C11.key_order_is_linear
#print axioms DI.C11.rank_ordinal_spec
#print axioms DI.C11.rank_ordinal_perm
#print axioms DI.C11.rank_ordinal_consistent_with_sort
#print axioms DI.C11.rank_ordinal_inverse_of_sort
#print axioms DI.C11.vsort_asc_is_stable_sort
#print axioms DI.C11.vsort_stable
#print axioms DI.C11.vsort_desc_ties_reversed
#print axioms DI.C11.vsortObj_perm
#print axioms DI.C11.vsortObj_ordered
#print axioms DI.C11.vsortObj_missing_last
#print axioms DI.C11.vsortObj_stable
#print axioms DI.C11.vunique_first_occurrence
#print axioms DI.C11.vunique_each_value_once
#print axioms DI.C11.key_order_is_preorder
#print axioms DI.Tie.C11.sort_code
#print axioms DI.Tie.C11.unique_code
#print axioms DI.Tie.C11.optimize_for_argsort_code
#print axioms DI.Tie.C11.rank_code

#!/usr/bin/env python3
"""
Re-run the registered quick checks against every filed seeded change (seeded/<id>/patch.diff) in a scratch
worktree of /repo (outside /repo and /verif) and update the `caught` / `check_signatures` fields of
seeded/<id>/meta.json and seeded/SUMMARY.json.  (Confirmation that the change passes the suite and fails
its demonstration was done when the seed was filed: tools/verify_seeds.py.)

usage: tools/recheck_seeds.py [id-prefix ...]
"""
import json
import os
import subprocess
import sys

VERIF = os.path.dirname(os.path.dirname(os.path.abspath(__file__)))
WT = os.environ.get("VERIF_RECHECK_WT", "/tmp/verif-recheckwt")


def sh(cmd, **kw):
    p = subprocess.run(cmd, stdout=subprocess.PIPE, stderr=subprocess.STDOUT, text=True, **kw)
    return p.returncode, p.stdout


def main():
    only = sys.argv[1:]
    sh(["git", "-C", "/repo", "worktree", "remove", "--force", WT])
    rc, out = sh(["git", "-C", "/repo", "worktree", "add", "--detach", WT, "HEAD"])
    assert rc == 0, out
    summary = []
    try:
        for sid in sorted(os.listdir(os.path.join(VERIF, "seeded"))):
            d = os.path.join(VERIF, "seeded", sid)
            if not os.path.isdir(d) or (only and not any(sid.startswith(o) for o in only)):
                continue
            meta = json.load(open(os.path.join(d, "meta.json")))
            prop = meta["property"]
            sh(["git", "-C", WT, "checkout", "--", "."])
            sh(["git", "-C", WT, "clean", "-fdq"])
            rc, out = sh(["git", "-C", WT, "apply", os.path.join(d, "patch.diff")])
            if rc != 0:
                meta["applies"] = False
                print(sid, "DOES NOT APPLY", out[-200:])
            else:
                rc, out = sh([os.path.join(VERIF, "check"), prop, "--tier", "quick"], cwd=VERIF, env=dict(os.environ, VERIF_REPO=WT))
                lines = out.strip().split("\n")
                meta["check_rc"] = rc
                meta["check_violation_lines"] = len([l for l in lines if l.startswith("VIOLATION")])
                # did the search find a concrete failing input (a VIOLATION line that does not end no-failing-input-found)?
                meta["failing_input_found"] = any(l.startswith("VIOLATION") and not l.rstrip().endswith("no-failing-input-found") for l in lines)
                meta["check_signatures"] = next((l for l in lines if "violation signatures" in l), "")[:1500]
                meta["caught"] = rc == 1 and meta["check_violation_lines"] > 0
                print(sid, "caught" if meta["caught"] else "MISSED", "input" if meta["failing_input_found"] else "NO-INPUT", meta["check_signatures"][:140], flush=True)
            json.dump(meta, open(os.path.join(d, "meta.json"), "w"), indent=1)
            summary.append(meta)
    finally:
        sh(["git", "-C", WT, "checkout", "--", "."])
        sh(["git", "-C", "/repo", "worktree", "remove", "--force", WT])
    if not only:
        json.dump(summary, open(os.path.join(VERIF, "seeded", "SUMMARY.json"), "w"), indent=1)


if __name__ == "__main__":
    main()

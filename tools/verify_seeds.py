#!/usr/bin/env python3
"""
Confirm seeded breaking changes (produced by sub-agents that saw only the property text) and file the
confirmed ones under /verif/seeded/<id>/:

  for every <src>/<Cxx>.out/m<k>/{patch.diff,demo.py,note.txt}:
    1. the patch applies to /repo's current HEAD (in a scratch worktree outside /repo and /verif),
    2. demo.py exits 0 on the unmodified code,
    3. the existing test suite still passes with the patch (the 7 tests that fail on the pinned tree
       because two data files are empty are deselected),
    4. demo.py exits non-zero with the patch,
    5. ./check <Cxx> --tier quick against the patched tree exits 1 with a VIOLATION line.

usage: tools/verify_seeds.py <src-dir> [Cxx ...]      (src-dir defaults to /tmp/wt)
"""
import json
import os
import shutil
import subprocess
import sys

VERIF = os.path.dirname(os.path.dirname(os.path.abspath(__file__)))
WT = os.environ.get("VERIF_SEED_WT", "/tmp/verif-seedwt")
NC = WT + "-nc"
KS = set(filter(None, os.environ.get("VERIF_SEED_ONLY", "").split(",")))      # e.g. m7,m8
DESELECT = ["dataiter/test/test_data_frame.py::TestDataFrame::test_read_json_columns",
            "dataiter/test/test_data_frame.py::TestDataFrame::test_read_json_dtypes",
            "dataiter/test/test_data_frame.py::TestDataFrame::test_read_json_path",
            "dataiter/test/test_list_of_dicts.py::TestListOfDicts::test_drop_na",
            "dataiter/test/test_list_of_dicts.py::TestListOfDicts::test_keys",
            "dataiter/test/test_list_of_dicts.py::TestListOfDicts::test_print_memory_use",
            "dataiter/test/test_list_of_dicts.py::TestListOfDicts::test_print_na_counts"]


def sh(cmd, **kw):
    p = subprocess.run(cmd, stdout=subprocess.PIPE, stderr=subprocess.STDOUT, text=True, **kw)
    return p.returncode, p.stdout


def main():
    src = sys.argv[1] if len(sys.argv) > 1 else "/tmp/wt"
    only = set(sys.argv[2:])
    env = dict(os.environ, NUMBA_CACHE_DIR=NC, PYTHONPATH=WT)
    sh(["git", "-C", "/repo", "worktree", "remove", "--force", WT])
    rc, out = sh(["git", "-C", "/repo", "worktree", "add", "--detach", WT, "HEAD"])
    assert rc == 0, out
    head = sh(["git", "-C", "/repo", "rev-parse", "--short", "HEAD"])[1].strip()
    results = []
    try:
        for prop in sorted(d[:-4] for d in os.listdir(src) if d.endswith(".out")):
            if only and prop not in only:
                continue
            for k in sorted(os.listdir(os.path.join(src, prop + ".out"))):
                d = os.path.join(src, prop + ".out", k)
                if not (os.path.isdir(d) and k.startswith("m") and os.path.exists(os.path.join(d, "patch.diff"))):
                    continue
                if KS and k not in KS:
                    continue
                patch = os.path.join(d, "patch.rebased.diff") if os.path.exists(os.path.join(d, "patch.rebased.diff")) else os.path.join(d, "patch.diff")
                sid = f"{prop}-{k}"
                meta = {"id": sid, "property": prop, "repo_head": head, "note": open(os.path.join(d, "note.txt")).read().strip()}
                sh(["git", "-C", WT, "checkout", "--", "."])
                rc, out = sh(["git", "-C", WT, "apply", "--check", patch])
                meta["applies"] = rc == 0
                if rc != 0:
                    meta["apply_error"] = out[-500:]
                    results.append(meta)
                    print(sid, "DOES NOT APPLY")
                    continue
                shutil.copy(os.path.join(d, "demo.py"), os.path.join(WT, "_demo.py"))
                rc, out = sh(["/venv/bin/python", "_demo.py"], cwd=WT, env=env)
                meta["demo_clean_rc"] = rc
                sh(["git", "-C", WT, "apply", patch])
                shutil.rmtree(NC, ignore_errors=True)      # a JIT cache written under another patch must not decide this suite run
                rc, out = sh(["/venv/bin/python", "-m", "pytest", "-q", "-p", "no:cacheprovider", "-x"] + [x for t in DESELECT for x in ("--deselect", t)], cwd=WT, env=env)
                meta["tests_rc"] = rc
                meta["tests_tail"] = out.strip().split("\n")[-1]
                rc, out = sh(["/venv/bin/python", "_demo.py"], cwd=WT, env=env)
                meta["demo_patched_rc"] = rc
                meta["demo_patched_tail"] = out.strip().split("\n")[-1][:300]
                os.remove(os.path.join(WT, "_demo.py"))
                rc, out = sh([os.path.join(VERIF, "check"), prop, "--tier", "quick"], cwd=VERIF, env=dict(os.environ, VERIF_REPO=WT))
                lines = out.strip().split("\n")
                meta["check_rc"] = rc
                meta["check_violation_lines"] = len([l for l in lines if l.startswith("VIOLATION")])
                meta["check_signatures"] = next((l for l in lines if "violation signatures" in l), "")[:1500]
                meta["confirmed"] = bool(meta["applies"] and meta["demo_clean_rc"] == 0 and meta["tests_rc"] == 0 and meta["demo_patched_rc"] != 0)
                meta["caught"] = rc == 1 and meta["check_violation_lines"] > 0
                results.append(meta)
                print(sid, "confirmed" if meta["confirmed"] else "NOT CONFIRMED", "caught" if meta["caught"] else "MISSED", meta["tests_tail"])
                if meta["confirmed"]:
                    dst = os.path.join(VERIF, "seeded", sid)
                    os.makedirs(dst, exist_ok=True)
                    shutil.copy(patch, os.path.join(dst, "patch.diff"))
                    shutil.copy(os.path.join(d, "demo.py"), os.path.join(dst, "demo.py"))
                    json.dump(meta, open(os.path.join(dst, "meta.json"), "w"), indent=1)
    finally:
        sh(["git", "-C", WT, "checkout", "--", "."])
        sh(["git", "-C", "/repo", "worktree", "remove", "--force", WT])
        shutil.rmtree(NC, ignore_errors=True)
    sp = os.path.join(VERIF, "seeded", "SUMMARY.json")
    old = json.load(open(sp)) if os.path.exists(sp) else []
    new_ids = {m["id"] for m in results}
    json.dump([m for m in old if m["id"] not in new_ids] + results, open(sp, "w"), indent=1)


if __name__ == "__main__":
    main()

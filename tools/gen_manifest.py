#!/usr/bin/env python3
"""Regenerate MANIFEST.json from tools/claims.json (one entry per claimed property)."""
import json, os
here = os.path.dirname(os.path.dirname(os.path.abspath(__file__)))
props = [json.loads(l) for l in open(os.path.join(here, "properties.jsonl"))]
claims = json.load(open(os.path.join(here, "tools", "claims.json")))
checks = []
for p in props:
    c = claims.get(p["id"])
    if not c or c.get("not_applicable"):
        continue
    checks.append({
        "property_id": p["id"],
        "quick_cmd": f"./check {p['id']} --tier quick",
        "thorough_cmd": f"./check {p['id']} --tier thorough",
        "evidence_file": f"evidence/{p['id']}.json",
        "replay_cmd_template": f"./check {p['id']} --replay {{path}}",
        "engine": "lean-model+correspondence",
        "level_claimed": {"category": "proof", "text": c["text"], "design_ref": c.get("design_ref", "DESIGN.md §5 " + p["id"])},
        "level_note": c["note"],
        "technique": c.get("technique", "Lean 4 theorems over a hand-written executable model of the anchored code; model tied to /repo by a differential correspondence run (model driver vs implementation on generated inputs) plus an independent oracle for the failing-input search"),
    })
na = []
for p in props:
    c = claims.get(p["id"])
    if not c:
        na.append({"property_id": p["id"], "reason": "check under construction in this round (not yet claimed)"})
    elif c.get("not_applicable"):
        na.append({"property_id": p["id"], "reason": c["not_applicable"]})
m = {
    "version": 1,
    "setup_cmd": "cd lean && lake build",
    "hooks": {"guard": "DATAITER_VERIF",
              "enable": "none needed: no hooks or instrumentation were added to /repo; every observable is reachable through the public API, np.shares_memory, byte snapshots, captured stdout and fresh subprocesses; checks import /repo's working tree directly",
              "baseline_off_cmd": "cd /repo && /venv/bin/python -m pytest -q -p no:cacheprovider",
              "source_commits": [], "add_only": True},
    "engines": [{"name": "lean-model+correspondence", "path": "check",
                 "serves_properties": [c["property_id"] for c in checks],
                 "kind_free_text": "Lean 4 model + theorems (lean/Model, lean/Lemmas, lean/Proofs), ast-generated tables (lean/Generated), compiled JSON-line model driver (lean/Driver), Python differential harness and oracles (harness/)"}],
    "checks": checks,
    "notes": "See DESIGN.md. All checks: ./check <Cxx> --tier quick|thorough [--seed N] [--replay file]; VERIF_SEED / VERIF_TIER are honoured. known_findings.json lists recorded (known) and repaired (fixed) defects.",
    "not_applicable": na,
}
json.dump(m, open(os.path.join(here, "MANIFEST.json"), "w"), indent=1)
print("claimed:", [c["property_id"] for c in checks], "unclaimed:", [x["property_id"] for x in na])

#!/usr/bin/env python3
"""Print the markdown table of DESIGN.md §0.6 from seeded/*/meta.json."""
import json, os, re
here = os.path.dirname(os.path.dirname(os.path.abspath(__file__)))
rows = []
for sid in sorted(os.listdir(os.path.join(here, "seeded"))):
    p = os.path.join(here, "seeded", sid, "meta.json")
    if not os.path.exists(p):
        continue
    m = json.load(open(p))
    note = " ".join(m.get("note", "").split())
    note = re.sub(r"^C\d\d\s*/\s*m\d.*?(WHAT WAS CHANGED|What was changed|Changed?:|CHANGE:?)", "", note)
    note = re.sub(r"^[=\-\s]*(WHAT WAS CHANGED|Change|CHANGE|What changed)\s*[:\-=]*\s*", "", note)
    note = re.sub(r"^[=\-\s:]+", "", note)
    note = re.sub(r"^m\d\s*-+\s*", "", note)
    note = re.split(r"\s(WHAT WAS CHANGED|CHANGE\b|={5,})", note)[0]
    one = note[:170].replace("|", "/")
    sigs = re.findall(r"'((?:oracle|correspondence|obligation):[^']+)'", m.get("check_signatures", ""))
    kinds = sorted({s.split(":")[0] for s in sigs})
    caught = "+".join(kinds) + ": " + ", ".join(s for s in sigs[:3]) if m.get("caught") else "**MISSED**"
    if m.get("caught") and m.get("failing_input_found") is False:
        caught += " — *no failing input found*"
    rows.append(f"| {sid} | {one} | {caught} |")
print("| seed | what it changes (first words of the sub-agent's note) | caught by (`./check` quick, signatures) |")
print("|----|----|----|")
print("\n".join(rows))

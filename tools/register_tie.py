#!/usr/bin/env python3
"""Keep lean/Audit/theorems.json in step with the theorem names in lean/Proofs/TieC*.lean."""
import glob, json, os, re
here = os.path.dirname(os.path.dirname(os.path.abspath(__file__)))
reg_path = os.path.join(here, "lean", "Audit", "theorems.json")
reg = json.load(open(reg_path))
for f in sorted(glob.glob(os.path.join(here, "lean", "Proofs", "TieC*.lean"))):
    prop = re.search(r"Tie(C\d\d)", f).group(1)
    names = re.findall(r"^theorem (\w+)", open(f).read(), flags=re.M)
    have = {e["name"] for e in reg[prop]}
    for n in names:
        full = f"DI.Tie.{prop}.{n}"
        if full not in have:
            reg[prop].append({"name": full, "module": f"Proofs.Tie{prop}"})
json.dump(reg, open(reg_path, "w"), indent=1)
print({k: len(v) for k, v in sorted(reg.items())}, sum(len(v) for v in reg.values()))

#!/bin/bash
# run every registered check at one tier / seed on /repo's working tree; summary lines only
tier=${1:-quick}; seed=${2:-0}
cd "$(dirname "$0")/.."
rc_all=0
for i in $(seq -w 1 20); do
  out=$(./check C$i --tier $tier --seed $seed 2>&1); rc=$?
  echo "$out" | grep -E "^\[C$i\] (OK|FAIL)|^VIOLATION|^KNOWN-FINDING" | tail -4
  [ $rc -ne 0 ] && rc_all=1
done
exit $rc_all
